"""E5: model-based testing of the batteries (C15).

direct mode      random operation sequences over all public methods of one battery, called
                 with _doApply=True, against int / list / dict / set / bounded deque / bounded
                 heap: same result or same exception class, same contents after every op.
snapshot mode    the battery's state is carried through _serialize -> pickle -> _deserialize
                 (what a snapshot install does) in the middle of a sequence; the restored
                 replica must then behave like the original one (incl. ReplSet.pop()).
replicated mode  the same kind of sequences through a 3-node E1 cluster with forced
                 compactions and a follower that catches up by snapshot; the C01/C02 monitors
                 compare every apply result, callback result and replica digest with the model.
"""
import os
import copy
import json
import heapq
import random
import pickle
import collections

from .common import bootstrap, h32, VERIF_DIR, Violation

bootstrap()
import pysyncobj.batteries as B       # noqa: E402

KINDS = ('counter', 'list', 'dict', 'set', 'queue', 'pqueue')


class V(Exception):
    def __init__(self, kind, msg, **facts):
        Exception.__init__(self, msg)
        self.kind = kind
        self.msg = msg
        self.facts = facts


# ---------------------------------------------------------------------------------------
# reference models: the builtin containers themselves, wrapped to the battery's method names


class MCounter(object):
    def __init__(self):
        self.v = int()

    def set(self, x):
        self.v = x
        return self.v

    def add(self, x):
        self.v += x
        return self.v

    def sub(self, x):
        self.v -= x
        return self.v

    def inc(self):
        self.v += 1
        return self.v

    def get(self):
        return self.v

    def contents(self):
        return self.v


class MList(object):
    def __init__(self):
        self.v = []

    def reset(self, x):
        self.v = x

    def set(self, pos, val):
        self.v[pos] = val

    def __setitem__(self, pos, val):
        self.v[pos] = val

    def append(self, x):
        self.v.append(x)

    def extend(self, x):
        self.v.extend(x)

    def insert(self, pos, x):
        self.v.insert(pos, x)

    def remove(self, x):
        self.v.remove(x)

    def pop(self, *a):
        return self.v.pop(*a)

    def sort(self, **kw):
        self.v.sort(**kw)

    def index(self, x):
        return self.v.index(x)

    def count(self, x):
        return self.v.count(x)

    def get(self, pos):
        return self.v[pos]

    def __getitem__(self, pos):
        return self.v[pos]

    def __len__(self):
        return len(self.v)

    def contents(self):
        return list(self.v)


class MDict(object):
    def __init__(self):
        self.v = {}

    def reset(self, x):
        self.v = x

    def __setitem__(self, k, val):
        self.v[k] = val

    def set(self, k, val):
        self.v[k] = val

    def setdefault(self, k, d):
        return self.v.setdefault(k, d)

    def update(self, o):
        self.v.update(o)

    def pop(self, k, *d):
        # the battery documents: "return default if key not exist", default=None
        return self.v.pop(k, *(d or (None,)))

    def clear(self):
        self.v.clear()

    def __getitem__(self, k):
        return self.v[k]

    def get(self, k, *d):
        return self.v.get(k, *d)

    def __len__(self):
        return len(self.v)

    def __contains__(self, k):
        return k in self.v

    def keys(self):
        return sorted(self.v.keys())

    def values(self):
        return sorted(self.v.values(), key=repr)

    def items(self):
        return sorted(self.v.items())

    def contents(self):
        return dict(self.v)


class MSet(object):
    def __init__(self):
        self.v = set()

    def reset(self, x):
        self.v = x

    def add(self, x):
        self.v.add(x)

    def remove(self, x):
        self.v.remove(x)

    def discard(self, x):
        self.v.discard(x)

    def clear(self):
        self.v.clear()

    def update(self, o):
        self.v.update(o)

    def __len__(self):
        return len(self.v)

    def __contains__(self, x):
        return x in self.v

    def contents(self):
        return set(self.v)


class MQueue(object):
    def __init__(self, maxsize):
        self.maxsize = maxsize
        self.v = collections.deque()

    def put(self, x):
        if self.maxsize and len(self.v) >= self.maxsize:
            return False
        self.v.append(x)
        return True

    def get(self, *d):
        if not self.v:
            return d[0] if d else None
        return self.v.popleft()

    def qsize(self):
        return len(self.v)

    def __len__(self):
        return len(self.v)

    def empty(self):
        return len(self.v) == 0

    def full(self):
        return len(self.v) >= self.maxsize

    def contents(self):
        return list(self.v)


class MPQueue(MQueue):
    def __init__(self, maxsize):
        self.maxsize = maxsize
        self.v = []

    def put(self, x):
        if self.maxsize and len(self.v) >= self.maxsize:
            return False
        heapq.heappush(self.v, x)
        return True

    def get(self, *d):
        if not self.v:
            return d[0] if d else None
        return heapq.heappop(self.v)

    def contents(self):
        return sorted(self.v)


def make_pair(kind, maxsize):
    if kind == 'counter':
        return B.ReplCounter(), MCounter()
    if kind == 'list':
        return B.ReplList(), MList()
    if kind == 'dict':
        return B.ReplDict(), MDict()
    if kind == 'set':
        return B.ReplSet(), MSet()
    if kind == 'queue':
        return B.ReplQueue(maxsize), MQueue(maxsize)
    if kind == 'pqueue':
        return B.ReplPriorityQueue(maxsize), MPQueue(maxsize)
    raise ValueError(kind)


REPLICATED = {
    'counter': ('set', 'add', 'sub', 'inc'),
    'list': ('reset', 'set', '__setitem__', 'append', 'extend', 'insert', 'remove', 'pop', 'sort'),
    'dict': ('reset', '__setitem__', 'set', 'setdefault', 'update', 'pop', 'clear'),
    'set': ('reset', 'add', 'remove', 'discard', 'pop', 'clear', 'update'),
    'queue': ('put', 'get'),
    'pqueue': ('put', 'get'),
}


def battery_contents(kind, b):
    if kind == 'counter':
        return b.get()
    if kind == 'list':
        return list(b.rawData())
    if kind == 'dict':
        return dict(b.rawData())
    if kind == 'set':
        return set(b.rawData())
    if kind == 'queue':
        return list(b._serialize()['_ReplQueue__data'])
    if kind == 'pqueue':
        return sorted(b._serialize()['_ReplPriorityQueue__data'])


def val(r):
    return r.randrange(0, 5)


def pos(r):
    return r.randrange(-4, 5)


def gen_op(kind, r):
    """-> (method, args, kwargs); arguments from small domains so that hits, misses,
    empties and bounds occur; default arguments are exercised by omitting them."""
    if kind == 'counter':
        m = r.choice(['set', 'add', 'sub', 'inc', 'get'])
        return (m, () if m in ('inc', 'get') else (r.randrange(-3, 4),), {})
    if kind == 'list':
        m = r.choice(['reset', 'set', '__setitem__', 'append', 'append', 'extend', 'insert', 'remove', 'pop', 'pop', 'sort', 'index',
                      'count', 'get', '__getitem__', '__len__'])
        if m == 'reset':
            return (m, ([val(r) for _ in range(r.randrange(0, 4))],), {})
        if m in ('set', '__setitem__'):
            return (m, (pos(r), val(r)), {})
        if m == 'append':
            return (m, (val(r),), {})
        if m == 'extend':
            return (m, ([val(r) for _ in range(r.randrange(0, 3))],), {})
        if m == 'insert':
            return (m, (pos(r), val(r)), {})
        if m in ('remove', 'index', 'count'):
            return (m, (val(r),), {})
        if m == 'pop':
            return (m, () if r.random() < 0.5 else (pos(r),), {})
        if m == 'sort':
            c = r.random()
            return (m, (), {} if c < 0.4 else {'reverse': c < 0.7})
        if m in ('get', '__getitem__'):
            return (m, (pos(r),), {})
        return (m, (), {})
    if kind == 'dict':
        m = r.choice(['reset', '__setitem__', 'set', 'setdefault', 'update', 'pop', 'pop', 'clear', '__getitem__', 'get', 'get', '__len__',
                      '__contains__', 'keys', 'values', 'items'])
        if m == 'reset':
            return (m, (dict((val(r), val(r)) for _ in range(r.randrange(0, 3))),), {})
        if m in ('__setitem__', 'set', 'setdefault'):
            return (m, (val(r), val(r)), {})
        if m == 'update':
            return (m, (dict((val(r), val(r)) for _ in range(r.randrange(0, 3))),), {})
        if m in ('pop', 'get'):
            return (m, (val(r),) if r.random() < 0.5 else (val(r), 'dflt'), {})
        if m in ('__getitem__', '__contains__'):
            return (m, (val(r),), {})
        return (m, (), {})
    if kind == 'set':
        m = r.choice(['reset', 'add', 'add', 'remove', 'discard', 'pop', 'clear', 'update', '__len__', '__contains__'])
        if m == 'reset':
            return (m, (set(val(r) for _ in range(r.randrange(0, 3))),), {})
        if m in ('add', 'remove', 'discard', '__contains__'):
            return (m, (val(r),), {})
        if m == 'update':
            return (m, (set(val(r) for _ in range(r.randrange(0, 3))),), {})
        return (m, (), {})
    # queues
    m = r.choice(['put', 'put', 'put', 'get', 'get', 'qsize', 'empty', '__len__', 'full'])
    if m == 'put':
        return (m, ((val(r), val(r)),) if kind == 'pqueue' else (val(r),), {})
    if m == 'get':
        return (m, () if r.random() < 0.5 else ('dflt',), {})
    return (m, (), {})


def call(obj, is_battery, kind, m, args, kwargs):
    args = copy.deepcopy(args)
    kwargs = copy.deepcopy(kwargs)
    if is_battery and m in REPLICATED[kind]:
        kwargs['_doApply'] = True
    try:
        return ('ret', getattr(obj, m)(*args, **kwargs))
    except Exception as e:
        return ('exc', type(e).__name__)


def norm(kind, m, out):
    if out[0] == 'ret' and m in ('keys', 'values', 'items'):
        v = out[1]
        return ('ret', sorted(v, key=repr) if m == 'values' else sorted(v))
    return out


def run_sequence(kind, maxsize, ops, snap_at=None):
    """Executes ops on battery and model; returns None or a V.  `snap_at`: op index before
    which the battery is replaced by a replica restored from its serialized state."""
    b, m = make_pair(kind, maxsize)
    for i, (meth, args, kwargs) in enumerate(ops):
        if snap_at is not None and i == snap_at:
            data = pickle.loads(pickle.dumps(b._serialize(), 2))
            b2, _ = make_pair(kind, maxsize)
            b2._deserialize(data)
            if battery_contents(kind, b2) != battery_contents(kind, b):
                return V('snapshot_changes_contents', '%s restored from its serialized state differs' % kind, battery=kind, method='_serialize')
            b_orig, b = b, b2
        if kind == 'set' and meth == 'pop':
            before = set(m.v)
            got = call(b, True, kind, meth, args, kwargs)
            if not before:
                if got != ('exc', 'KeyError'):
                    return V('result_differs', 'ReplSet.pop() on empty set gave %r, set raises KeyError' % (got,), battery=kind, method=meth)
            else:
                if got[0] != 'ret' or got[1] not in before:
                    return V('result_differs', 'ReplSet.pop() gave %r, not a member of %r' % (got, before), battery=kind, method=meth)
                m.v.discard(got[1])
        else:
            got = norm(kind, meth, call(b, True, kind, meth, args, kwargs))
            exp = norm(kind, meth, call(m, False, kind, meth, args, kwargs))
            if got != exp:
                return V('result_differs', 'op %d %s.%s%r%r -> %r, the builtin gives %r' % (i, kind, meth, args, kwargs or '', got, exp),
                         battery=kind, method=meth, default_args=(len(args) == 0))
        bc = battery_contents(kind, b)
        if bc != m.contents():
            return V('contents_differ', 'after op %d %s.%s%r: battery holds %r, the builtin %r' % (i, kind, meth, args, bc, m.contents()),
                     battery=kind, method=meth)
    return None


def shrink(kind, maxsize, ops, snap_at, v):
    ops = list(ops)
    changed = True
    while changed and len(ops) > 1:
        changed = False
        for i in range(len(ops) - 1, -1, -1):
            cand = ops[:i] + ops[i + 1:]
            sa = snap_at
            if sa is not None:
                if i < sa:
                    sa -= 1
                sa = min(sa, len(cand) - 1) if cand else None
            v2 = run_sequence(kind, maxsize, cand, sa)
            if v2 is not None and v2.kind == v.kind and v2.facts.get('method') == v.facts.get('method'):
                ops, snap_at, v, changed = cand, sa, v2, True
                break
    return ops, snap_at, v


def set_pop_replica_check(r):
    """Two replicas with equal contents but different histories (one restored from a
    snapshot) must pop the same elements, otherwise replicas diverge after a snapshot."""
    a = B.ReplSet()
    for _ in range(r.randrange(3, 40)):
        if r.random() < 0.7:
            a.add(r.randrange(0, 64), _doApply=True)
        else:
            a.discard(r.randrange(0, 64), _doApply=True)
    b = B.ReplSet()
    b._deserialize(pickle.loads(pickle.dumps(a._serialize(), 2)))
    pa, pb = [], []
    for _ in range(len(a)):
        pa.append(a.pop(_doApply=True))
        pb.append(b.pop(_doApply=True))
    if pa != pb:
        return V('set_pop_diverges_after_snapshot', 'replica restored from a snapshot pops %r, the original %r' % (pb[:6], pa[:6]),
                 battery='set', method='pop')
    return None


# ---------------------------------------------------------------------------------------
# replicated mode on E1


def replicated_case(rs, r):
    from .clustersim import Sim
    from .common import CLK
    kinds = list(KINDS)
    cfg = {'n': 3, 'consumers': kinds, 'steps': 0, 'quiet': False, 'use_batch': r.random() < 0.5, 'chunk': r.choice([7, 50, 65536]),
           'batch': r.choice([200, 65536]), 'journal': r.choice(['memory', 'file']), 'liveness': True, 'trace_len': int(os.environ.get('VERIF_TRACE', '150'))}
    sim = Sim(cfg, rs)
    stats = collections.Counter()
    script = []
    try:
        sim.boot()

        def rounds(n):
            for _ in range(n):
                sim.fair_round()

        def wait(pred, cap=400):
            for _ in range(cap):
                if pred():
                    return True
                sim.fair_round()
            return False

        if not wait(lambda: any(p.obj._isLeader() for p in sim.live())):
            return sim, stats, 'no leader', script
        # ReplList.__setitem__ is declared with ver=1: it exists only after the cluster switched to code version 1
        ver1 = r.random() < 0.6
        if ver1:
            L = [p for p in sim.live() if p.obj._isLeader()][0]
            wait(lambda: L.obj.raftLastApplied >= L.obj.raftCommitIndex and L.obj.raftCommitIndex >= 2)
            sim.run_node(L, L.obj.setCodeVersion, 1)
            if not wait(lambda: all(p.obj.getCodeVersion() == 1 for p in sim.live())):
                return sim, stats, 'version switch did not complete', script
            stats['version_switched'] += 1
        lag = r.choice(sim.members0)
        nops = r.randrange(25, 60)
        cut_at = r.randrange(3, nops // 2)
        heal_at = cut_at + r.randrange(5, nops // 2)
        burst = []          # submissions not yet awaited: several commands of one apply batch (pipelined callers)
        burst_len = 1
        for i in range(nops):
            if i == cut_at:
                others = [k for k in sim.members0 if k != lag]
                sim.one_step(('P', sorted(sorted((lag, k)) for k in others)))
                stats['follower_cut'] += 1
            if i == heal_at:
                for k in sim.members0:
                    if k != lag:
                        sim.one_step(('K', k))
                rounds(3)
                sim.one_step(('H',))
                stats['healed_after_compaction'] += 1
            ci = r.randrange(len(kinds))
            kind = kinds[ci]
            meth = None
            while meth is None or meth not in REPLICATED[kind] or (kind == 'set' and meth == 'pop') or \
                    (meth == '__setitem__' and kind == 'list' and not ver1):
                meth, args, kwargs = gen_op(kind, r)
            live = [p for p in sim.live() if p.key != lag or not sim.blocked]
            p = r.choice(live)
            script.append([p.key, kind, meth, repr(args), repr(kwargs)])
            before = sim.uid
            sim.one_step(('S', p.key, ci, meth, args, kwargs))
            sub = sim.subs.get(100000 + sim.uid) if sim.uid > before else None
            if sub is None:
                continue
            burst.append((sub, kind, meth))
            if len(burst) < burst_len and i != nops - 1 and i + 1 not in (cut_at, heal_at):
                continue
            if len(burst) > 1:
                stats['pipelined_bursts'] += 1
            for (sub, kind, meth) in burst:
                if not wait(lambda: bool(sub['cbs']), 300):
                    # no callback at all leaves the outcome open (C02), e.g. a deposed leader that
                    # catches up by snapshot never walks over the position it was waiting for
                    stats['no_callback'] += 1
                    continue
                stats['ops'] += 1
                stats['op_%s.%s' % (kind, meth)] += 1
                if sub['cbs'][0][2] != 0:
                    stats['non_success'] += 1
            burst = []
            burst_len = r.choice([1, 1, 2, 3, 5])
        sim.one_step(('H',)) if sim.blocked else None
        ok = wait(lambda: sim.mon.converged_basic(), 3000)
        if not ok:
            return sim, stats, 'no convergence at the end', script
        sim.mon.check_equal_replicas('C15')
        sim.mon.end_of_run()
        stats['snapshot_loads'] = sim.mon.obs.get('snapshot_loads', 0)
        stats['apply_events'] = sim.mon.obs.get('apply_events', 0)
        return sim, stats, None, script
    except Violation as v:
        sim.violations.append(v)
        return sim, stats, None, script
    finally:
        sim.teardown()


# ---------------------------------------------------------------------------------------
# engine interface


def cases(prop, tier, seed):
    return 8000 if tier == 'quick' else 160000


def plan(rs, i):
    r = random.Random(rs)
    mode = i % 8
    if mode == 7 and i % 24 != 7:
        mode = i % 6
    return r, mode


def run_case(prop, tier, seed, i, want_replay=None):
    rs = (h32('e5', seed) % 100000) * 100000 + i
    r, mode = plan(rs, i)
    res = {'runs': 1, 'violations': [], 'sit': {}, 'obs': collections.Counter(), 'escaped': {}, 'inconclusive': None, 'nontrivial_fps': []}
    v = None
    detail = None
    if mode == 7:
        sim, stats, inc, script = replicated_case(rs, r)
        res['obs'].update(stats)
        res['obs']['replicated_cases'] += 1
        if inc:
            res['inconclusive'] = 'replicated: ' + inc
        for x in sim.violations:
            v = V('replicated_' + x.kind, '%s/%s %s' % (x.prop, x.kind, x.msg), mode='replicated')
            detail = {'script': script[-30:], 'trace_tail': [repr(t) for t in list(sim.trace)[-60:]]}
            break
        if stats.get('snapshot_loads'):
            res['nontrivial_fps'].append(h32('repl', rs))
        if i < 64:
            res['sample'] = {'mode': 'replicated', 'seed': rs, 'script': script[:8], 'snapshot_loads': stats.get('snapshot_loads', 0)}
    elif mode == 6:
        res['obs']['set_pop_replica_checks'] += 1
        v = set_pop_replica_check(r)
        res['nontrivial_fps'].append(h32('setpop', rs % 97))
    else:
        kind = KINDS[r.randrange(len(KINDS))]
        maxsize = r.choice([1, 2, 3, 5]) if kind in ('queue', 'pqueue') else 0
        ops = [gen_op(kind, r) for _ in range(r.randrange(5, 70))]
        snap_at = r.randrange(len(ops)) if mode in (4, 5) else None
        v = run_sequence(kind, maxsize, ops, snap_at)
        res['obs']['direct_cases'] += 1
        res['obs']['direct_ops'] += len(ops)
        res['obs']['direct_' + kind] += 1
        if snap_at is not None:
            res['obs']['snapshot_roundtrips'] += 1
        outcomes = set()
        for (m, a, k) in ops:
            outcomes.add((kind, m, len(a), bool(k)))
        res['nontrivial_fps'] = [h32(o) for o in outcomes]
        if v is not None:
            ops2, sa2, v = shrink(kind, maxsize, ops, snap_at, v)
            detail = {'battery': kind, 'maxsize': maxsize, 'ops': [[m, repr(a), repr(k)] for m, a, k in ops2], 'snap_at': sa2}
        if i < 16:
            res['sample'] = {'mode': 'direct', 'battery': kind, 'maxsize': maxsize, 'ops': [[m, repr(a)] for m, a, k in ops[:8]]}
    if v is not None:
        rec = {'prop': 'C15', 'kind': v.kind, 'msg': v.msg, 'facts': v.facts}
        rec['replay'] = save_replay(rs, seed, i, rec, detail)
        res['violations'].append(rec)
    res['obs'] = dict(res['obs'])
    return res


def save_replay(rs, seed, i, rec, detail):
    d = os.path.join(VERIF_DIR, 'replays')
    os.makedirs(d, exist_ok=True)
    path = os.path.join(d, 'C15-%d.json' % rs)
    with open(path, 'w') as f:
        json.dump({'property': 'C15', 'engine': 'rv.batterymbt', 'seed': seed, 'case': i, 'violation': rec, 'witness': detail}, f,
                  indent=1, default=str)
    return path


def replay(prop, path):
    with open(path) as f:
        doc = json.load(f)
    res = run_case('C15', 'quick', doc['seed'], doc['case'])
    for v in res['violations']:
        print('replayed: C15/%s %s' % (v['kind'], v['msg']))
        if v['kind'] == doc['violation']['kind']:
            print('VIOLATION property=C15 replay=%s' % path)
            return 1
    print('not reproduced')
    return 0
