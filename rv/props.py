"""Registry: property id -> engine module, level, budgets, evidence rule."""

E1_RULE = ('one case = one seeded run of the E1 cluster simulator (real SyncObj/journal/serializer, simulated transport): a swarm-drawn '
           'configuration (2-5 voters, batch/chunk sizes, journal kind, biases) and an adversarial schedule of ticks, deliveries, drops, '
           'reconnects, partitions, compactions, submissions, followed by a fair quiet phase; all monitors run after every step. '
           'A case is non-trivial if it reached at least one deciding situation of this property (listed under "situations"); '
           'distinct = distinct fingerprint of the action sequence (kind, actor) and cluster size.')

PROPS = {}


def _e1(pid, wall_q=75, wall_t=900, min_q=20, min_t=100, assumptions=None):
    PROPS[pid] = {
        'engine': 'rv.e1', 'level': 'exploration', 'rule': E1_RULE,
        'wall_cap': {'quick': wall_q, 'thorough': wall_t},
        'min_nontrivial': {'quick': min_q, 'thorough': min_t},
        'assumptions': assumptions or [
            'transport modelled at message level with the connection rules of TCPTransport (E2 cross-checks on byte level)',
            'virtual time: every clock read advances 20 microseconds; nodes keep their memory unless the scenario kills them',
            'only the schedules drawn by the seeded adversary are covered'],
    }


for _p in ('C01', 'C02', 'C03', 'C04', 'C05', 'C18', 'C20'):
    _e1(_p)
