"""Registry: property id -> engine module, level, budgets, evidence rule."""

E1_RULE = ('one case = one seeded run of the E1 cluster simulator (real SyncObj/journal/serializer, simulated transport): a swarm-drawn '
           'configuration (2-5 voters, batch/chunk sizes, journal kind, biases) and an adversarial schedule of ticks, deliveries, drops, '
           'reconnects, partitions, compactions, submissions, followed by a fair quiet phase; all monitors run after every step. '
           'A case is non-trivial if it reached at least one deciding situation of this property (listed under "situations"); '
           'distinct = distinct fingerprint of the action sequence (kind, actor) and cluster size.')

PROPS = {}


def _e1(pid, wall_q=75, wall_t=900, min_q=20, min_t=100, assumptions=None):
    PROPS[pid] = {
        'engine': 'rv.e1', 'level': 'exploration', 'rule': E1_RULE,
        'wall_cap': {'quick': wall_q, 'thorough': wall_t},
        'min_nontrivial': {'quick': min_q, 'thorough': min_t},
        'assumptions': assumptions or [
            'transport modelled at message level with the connection rules of TCPTransport (E2 cross-checks on byte level)',
            'virtual time: every clock read advances 20 microseconds; nodes keep their memory unless the scenario kills them',
            'only the schedules drawn by the seeded adversary are covered'],
    }


for _p in ('C01', 'C02', 'C03', 'C04', 'C05', 'C06', 'C07', 'C09', 'C10', 'C12', 'C16', 'C17', 'C18', 'C20'):
    _e1(_p)

for _p in ('C01', 'C02', 'C03'):
    # every 20th case runs the real TCP stack on simulated sockets (E2) with protocol oracles, see rv/e1x.py
    PROPS[_p]['engine'] = 'rv.e1x'
    PROPS[_p]['rule'] = E1_RULE + (' Every 20th case is instead one run of real nodes over the real TCPTransport/TcpServer/TcpConnection on simulated '
                                   'sockets (file journals, connection faults, kills and restarts, unique command ids) with the protocol oracles of '
                                   'rv.e2.Proto; it is non-trivial if the cluster converged and the common sequence is not empty.')
    PROPS[_p]['assumptions'] = ['E1 cases: transport modelled at message level with the connection rules of TCPTransport; E2 cases: byte-level '
                                'simulated sockets under the real transport code',
                                'virtual time: every clock read advances 20 microseconds; nodes keep their memory unless the scenario kills them',
                                'only the schedules drawn by the seeded adversary are covered']

PROPS['C08'] = {
    'engine': 'rv.journalfuzz', 'level': 'fault_enumeration',
    'rule': ('one case = a seeded sequence of 40 journal operations (add of 0 B .. several times the current file size, drop tail, drop '
             'head, clear, commit-index update with/without flush, reopen) on the real FileJournal, compared after every operation with a '
             'Python list, with positive/negative indexing and slices, and with an independent decoder of the bytes on disk. For the '
             'enumerated operations (all in the thorough tier, a seeded 35% sample in the quick tier) every storage primitive is a kill '
             'point: the files are copied before and after each primitive and with 3 torn prefixes of every record store, a FileJournal '
             'is reopened on every copy and the post-crash oracle of the interrupted operation is applied (exhaustive per enumerated '
             'operation). Thorough adds real SIGKILL of a child process at random instants. distinct non-trivial = distinct '
             '(operation, kill point, emptiness, surviving length) and (operation, state class) combinations reached.'),
    'wall_cap': {'quick': 80, 'thorough': 1200},
    'min_nontrivial': {'quick': 20, 'thorough': 40},
    'assumptions': ['process kill, not power loss: the page cache survives, so the files at the instant of the kill are what is reopened',
                    'a 4-byte store of the header offset is atomic; record stores may tear at any prefix',
                    'journal creation (first open of a missing file) is outside the listed operations'],
}

PROPS['C15'] = {
    'engine': 'rv.batterymbt', 'level': 'exploration',
    'rule': ('one case = one seeded operation sequence. 5/8 of the cases: 5-70 operations over all public methods of one battery '
             '(_doApply=True, arguments from small domains, default arguments by omission) against the builtin container, result/exception '
             'class and contents compared after every operation; 2 of those 5 additionally carry the battery through '
             '_serialize/pickle/_deserialize mid-sequence; 1/8: ReplSet.pop() order on a replica restored from a snapshot vs the original; '
             '1/8: 25-60 replicated battery operations through a 3-node E1 cluster with a cut-off follower, forced compaction and snapshot '
             'catch-up, every apply result / callback result / replica digest compared with the model by the C01/C02 monitors. '
             'distinct non-trivial = distinct (battery, method, arity, kwargs?) combinations exercised plus replicated cases in which a '
             'snapshot was actually installed.'),
    'wall_cap': {'quick': 80, 'thorough': 1200},
    'min_nontrivial': {'quick': 40, 'thorough': 60},
    'assumptions': ['reference semantics follow the battery docstrings where they deliberately differ from the builtin (ReplDict.pop default None, '
                    'queue get(default))', 'bounded queues are exercised with maxsize >= 1'],
}

PROPS['C11'] = {
    'engine': 'rv.argsweep', 'level': 'exploration',
    'rule': ('one case = a 2-3 node E1 cluster on a healthy network (memory or file journal, batched or unbatched appends) and a slice of '
             'commands: the dense cases enumerate every argument size in [k*B-64, k*B+64] for k = 1..4 and every batch size B in '
             '{1, 7, 64, 1000, 4096, 65536}, the window being laid three times - in bytes of the argument, of the command and of the pickled log '
             'entry, whose library overhead is measured - (16 sizes per case, all sizes in both tiers); the other cases draw random sizes up to 8*B and random '
             'shapes (nested tuples/lists/dicts/bytes/str/None, positional and keyword). Every replica must execute each command exactly once '
             'with arguments equal to the submitted ones, the callback must report SUCCESS, no exception may escape any step, replicas must '
             'converge. distinct non-trivial = distinct (mode, batch size, append mode, journal, slice) in which commands were applied.'),
    'wall_cap': {'quick': 100, 'thorough': 1200},
    'min_nontrivial': {'quick': 40, 'thorough': 100},
    'assumptions': ['healthy network in the fair regime (every message delivered, every node ticking)',
                    'argument size = length of one bytes/str payload; pickling overhead (< 64 bytes) is covered by the +-64 window'],
}

PROPS['C13'] = {
    'engine': 'rv.framefuzz', 'level': 'exploration',
    'rule': ('one case = 1-13 messages (sizes 0 .. 4x the socket buffer, pickled protocol dicts, bytes, strings) sent through a pair of real '
             'TcpConnection objects on simulated sockets with buffers of 1 .. 8192 bytes while a seeded adversary decides, per action, how many '
             'bytes cross (1 .. all), caps send() (short writes), injects EAGAIN and caps recv() (split reads). Every third case rewrites one '
             'frame in flight: negative length (plain and wrapped around a valid payload), too small / too large length, bit flips in the '
             'payload, garbage. The prefix oracle runs after every action. distinct non-trivial = distinct (mode, corruption kind, buffer '
             'size, message count, short writes seen, split reads seen).'),
    'wall_cap': {'quick': 80, 'thorough': 1200},
    'min_nontrivial': {'quick': 40, 'thorough': 100},
    'assumptions': ['a too large positive length field is not detectably invalid: only "no misdelivery, no exception" is demanded there',
                    'a bit flip that still decompresses and unpickles is delivered as the changed value (not detectable by the framing layer)',
                    'sockets are simulated; thorough adds nothing kernel specific'],
}

PROPS['C14'] = {
    'engine': 'rv.e2', 'level': 'exploration',
    'rule': ('one case = 2-4 real SyncObj nodes with the real TCPTransport/TcpServer/TcpConnection on simulated sockets under virtual time; '
             'a fault phase (1500-6000 ticks with refused connects, RST, black-holed pairs, dropped flows leaving both sides half-open, node '
             'kill without FIN and restart, slow byte movement, tiny socket buffers), then a healthy phase. Attribution is checked on every '
             'delivered message; re-establishment after B = retry + timeout + 1 s (slow until 3B), and two probe rounds (after a random idle '
             'time, so links of every age are probed) check that "connected" means a message can be exchanged exactly once. distinct '
             'non-trivial = distinct (case, set of fault kinds that occurred, cluster size) with at least one fault or a completed probe round.'),
    'wall_cap': {'quick': 100, 'thorough': 1500},
    'min_nontrivial': {'quick': 20, 'thorough': 100},
    'assumptions': ['sockets and poller are simulated (rv/socksim.py); only physically possible faults are generated',
                    'lingering dead sockets are counted in the evidence, not judged'],
}

PROPS['C19'] = {
    'engine': 'rv.threadstress', 'level': 'exploration',
    'rule': ('one case = a real 1-node (4 of 5 cases) or 3-node loopback cluster with autoTick threads, 2-16 caller threads x 30-300 calls '
             '(fire-and-forget, callback, sync with and without timeout; every 7th case a 6000-call-per-thread flood in unbatched mode), queue '
             'limits 0/1/5/100000, batched or unbatched appends, and sys.monitoring LINE-event yield injection (rate 0-5%) on the command '
             'queue, pipe notifier, apply loop, replicated wrapper and AsyncResult code. Real time, real sockets. distinct non-trivial = '
             'distinct hash of the global order of submit-return / apply / callback events of a case in which something was applied.'),
    'wall_cap': {'quick': 110, 'thorough': 1500},
    'min_nontrivial': {'quick': 20, 'thorough': 100},
    'max_jobs': 12,
    'assumptions': ['interleavings are sampled by the OS scheduler plus injected yields under the GIL; they are not enumerable and not exactly replayable',
                    'loopback TCP and wall-clock time are real in this engine; a run that misses its watchdog is inconclusive, not a violation'],
}
