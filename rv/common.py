"""Common substrate: code-under-test import, virtual clock, violation records,
stable hashing.  Everything here is imported by worker processes only after
`bootstrap()` has put the repository under test first on sys.path."""
import os
import sys
import zlib
import types
import random
import logging

VERIF_DIR = os.path.dirname(os.path.dirname(os.path.abspath(__file__)))
GUARD = 'PYSYNCOBJ_VERIF'


def repo_dir():
    return os.path.abspath(os.environ.get('VERIF_REPO', '/repo'))


_booted = False


def bootstrap():
    """Make `import pysyncobj` resolve to the working tree under test."""
    global _booted
    if _booted:
        return
    r = repo_dir()
    sys.path.insert(0, r)
    os.environ[GUARD] = '1'
    sys.dont_write_bytecode = True
    logging.disable(logging.CRITICAL)
    import pysyncobj
    f = os.path.abspath(pysyncobj.__file__)
    if not f.startswith(r + os.sep):
        raise RuntimeError('pysyncobj imported from %s, expected under %s' % (f, r))
    _booted = True


# ---------------------------------------------------------------------------------------
# virtual time


class Clock(object):
    """Global virtual clock.  Every read advances it by `eps` (code that loops
    until time has elapsed must terminate); `off` is the per-node offset of the
    node whose code currently runs."""

    def __init__(self):
        self.now = 1000.0
        self.eps = 2e-5
        self.off = 0.0
        self.reads = 0

    def reset(self, start=1000.0):
        self.now = start
        self.off = 0.0
        self.reads = 0

    def monotonic(self):
        self.now += self.eps
        self.reads += 1
        return self.now + self.off

    def wall(self):
        self.now += self.eps
        return 1.6e9 + self.now


CLK = Clock()


class _TimeShim(object):
    """Stands in for the `time` module inside pysyncobj modules."""

    def __init__(self, sleeper=None):
        self._sleeper = sleeper

    def time(self):
        return CLK.wall()

    def monotonic(self):
        return CLK.monotonic()

    def sleep(self, s):
        if self._sleeper is not None:
            self._sleeper(s)
        else:
            CLK.now += max(0.0, s)


def install_virtual_time(batteries_sleeper=None):
    bootstrap()
    import pysyncobj.syncobj as S
    import pysyncobj.transport as T
    import pysyncobj.tcp_connection as C
    import pysyncobj.dns_resolver as D
    import pysyncobj.batteries as B
    for m in (S, T, C, D):
        m.monotonicTime = CLK.monotonic
    S.time = _TimeShim()
    T.time = _TimeShim()
    C.time = _TimeShim()
    B.time = _TimeShim(batteries_sleeper)


# ---------------------------------------------------------------------------------------
# violations


RAISED = []          # every Violation constructed in this run (node code may swallow the raise)


class Violation(Exception):
    """Raised (or recorded) by a monitor.  `prop` is the property id, `kind` the
    mechanism class, `facts` a small dict of mechanism facts used to match known
    findings, `msg` the human readable witness head."""

    def __init__(self, prop, kind, msg, **facts):
        Exception.__init__(self, '%s/%s: %s' % (prop, kind, msg))
        self.prop = prop
        self.kind = kind
        self.msg = msg
        self.facts = facts
        RAISED.append(self)

    def record(self):
        return {'prop': self.prop, 'kind': self.kind, 'msg': self.msg, 'facts': self.facts}


class Inconclusive(Exception):
    pass


class SimKill(BaseException):
    """Simulated process kill, raised from inside a storage primitive."""


def h32(*parts):
    """Stable (PYTHONHASHSEED independent) 32-bit hash of reprs."""
    return zlib.crc32(repr(parts).encode('utf-8', 'replace')) & 0xffffffff


def scratch_root():
    d = os.environ.get('VERIF_SCRATCH')
    if d:
        os.makedirs(d, exist_ok=True)
        return d
    for base in ('/dev/shm', os.environ.get('TMPDIR') or '/tmp'):
        if os.path.isdir(base) and os.access(base, os.W_OK):
            d = os.path.join(base, 'pysyncobj-verif')
            os.makedirs(d, exist_ok=True)
            return d
    raise RuntimeError('no scratch directory')


# ---------------------------------------------------------------------------------------
# known findings (read-only at run time)

_FINDINGS = None


def load_findings():
    global _FINDINGS
    if _FINDINGS is None:
        import json
        p = os.path.join(VERIF_DIR, 'known_findings.json')
        if os.path.exists(p):
            with open(p) as f:
                _FINDINGS = json.load(f).get('findings', [])
        else:
            _FINDINGS = []
    return _FINDINGS


def match_finding(prop, kind, facts):
    """Open finding whose mechanism predicate (property, kind, listed facts) this violation
    satisfies, or None.  Matching is by mechanism only, never by seed or hash."""
    for f in load_findings():
        if f.get('status') != 'open' or f.get('property') != prop:
            continue
        m = f.get('match', {})
        if m.get('kind') != kind:
            continue
        if all((facts or {}).get(k) == v for k, v in m.get('facts', {}).items()):
            return f
    return None
