"""E1: message-level cluster simulator.

Real SyncObj / Journal / Serializer / batteries per node; only the transport is
simulated (public `transportClass=` parameter).  One scheduler thread runs all
node code; a seeded adversary picks one explicit action per step; monitors (see
monitors.py) run after every step.  See DESIGN.md section 3.2.
"""
import os
import sys
import random
import shutil
import collections
import traceback
import pickle as _pickle

from .common import CLK, Violation, RAISED, SimKill, Inconclusive, h32, bootstrap, install_virtual_time, scratch_root

bootstrap()
import pysyncobj.syncobj as S                                   # noqa: E402
import pysyncobj.serializer as SER                              # noqa: E402
from pysyncobj import SyncObj, SyncObjConf, replicated, FAIL_REASON  # noqa: E402
from pysyncobj.node import Node, TCPNode                        # noqa: E402
from pysyncobj.transport import Transport                       # noqa: E402
from pysyncobj.poller import Poller, POLL_EVENT_TYPE            # noqa: E402

_ORIG_CREATE_JOURNAL = S.createJournal
_ORIG_SERIALIZER = S.Serializer

SIM = None          # the Sim currently running (one per process at a time)
CUR = None          # the Proc whose code currently runs


# ---------------------------------------------------------------------------------------
# poller: E1 needs none, but the pipe notifier of unbatched mode must be drained


class NullPoller(Poller):
    def __init__(self):
        self.subs = {}

    def subscribe(self, descr, callback, eventMask):
        self.subs[descr] = callback

    def unsubscribe(self, descr):
        self.subs.pop(descr, None)

    def poll(self, timeout):
        for d, cb in list(self.subs.items()):
            cb(d, POLL_EVENT_TYPE.READ)


# ---------------------------------------------------------------------------------------
# journal proxy: the Journal interface is the observation boundary


class JournalProxy(object):
    """Transparent proxy around the real journal.  Keeps a mirror list and the
    list of mutations of the current step."""

    def __init__(self, inner, proc):
        self.__dict__['_inner'] = inner
        self.__dict__['_proc'] = proc
        self.__dict__['mirror'] = [inner[i] for i in range(len(inner))]
        self.__dict__['muts'] = []
        if proc is not None:
            proc.journal = self

    def __getattr__(self, name):
        return getattr(self._inner, name)

    def __getitem__(self, item):
        return self._inner[item]

    def __len__(self):
        return len(self._inner)

    def add(self, command, idx, term):
        p = self._proc
        if p is not None and p.dead:
            raise SimKill()
        self._inner.add(command, idx, term)
        prev = self.mirror[-1] if self.mirror else None
        self.mirror.append((command, idx, term))
        self.muts.append(('add', idx, term, prev[1] if prev else None, prev[2] if prev else None))
        if SIM is not None:
            SIM.mon.on_journal_add(p, command, idx, term, prev)

    def clear(self):
        p = self._proc
        if p is not None and p.dead:
            raise SimKill()
        if p is not None:
            p.journal_op = 'clear'
        self._inner.clear()
        if p is not None:
            p.journal_op = None
        self.muts.append(('clear', list(self.mirror)))
        del self.mirror[:]

    def deleteEntriesFrom(self, entryFrom):
        p = self._proc
        if p is not None and p.dead:
            raise SimKill()
        if p is not None:
            p.journal_op = 'cut'
            p.journal_cut_from = self.mirror[entryFrom][1] if 0 <= entryFrom < len(self.mirror) else None
        self._inner.deleteEntriesFrom(entryFrom)
        if p is not None:
            p.journal_op = None
        dropped = self.mirror[entryFrom:]
        del self.mirror[entryFrom:]
        if dropped:
            self.muts.append(('cut', dropped))

    def deleteEntriesTo(self, entryTo):
        p = self._proc
        if p is not None and p.dead:
            raise SimKill()
        if p is not None:
            p.journal_op = 'trim'
        self._inner.deleteEntriesTo(entryTo)
        if p is not None:
            p.journal_op = None
        del self.mirror[:entryTo]
        self.muts.append(('trim', entryTo))

    def setRaftCommitIndex(self, idx):
        p = self._proc
        if p is not None:
            if p.dead:
                raise SimKill()
            p.sim.mon.commit_values.setdefault(p.key, set()).add(idx)
        return self._inner.setRaftCommitIndex(idx)

    # convenience for monitors -----------------------------------------------------
    def first_idx(self):
        return self.mirror[0][1] if self.mirror else None

    def last_idx(self):
        return self.mirror[-1][1] if self.mirror else None

    def entry(self, idx):
        m = self.mirror
        if not m:
            return None
        k = idx - m[0][1]
        if 0 <= k < len(m):
            e = m[k]
            if e[1] == idx:
                return e
            for e in m:      # non-contiguous log: should never happen, be safe
                if e[1] == idx:
                    return e
        return None


def _create_journal(journalFile=None):
    inner = _ORIG_CREATE_JOURNAL(journalFile)
    return JournalProxy(inner, CUR)


# ---------------------------------------------------------------------------------------
# serializer observer


EMU = {'on': False, 'next_pid': 10 ** 7}


class _ChildExit(BaseException):
    """os._exit() of an emulated snapshot child (BaseException: the library's `except Exception` must not see it)."""

    def __init__(self, status):
        BaseException.__init__(self, status)
        self.status = status


CHILDREN = {}        # pid -> {'pid', 'wfd', 'due', 'proc', 'id'}: snapshot children of fork mode that have not been reaped


class _ForkOs(object):
    """Stands for the `os` module inside pysyncobj.serializer so that fork mode (the library's default for
    file snapshots) runs under virtual time and replays exactly.  fork() really forks: the child holds the
    copy-on-write memory image of the fork instant, exactly as in production, and runs the library's child code
    at once (tmp file, gzip, pickle, rename, _exit) - but its rename is parked next to the dump file
    (storage.CHILD_SUFFIX) and the harness reaps it immediately.  Towards the library the child is still running:
    waitpid(WNOHANG) answers "still running" until the child's virtual duration (drawn per child) has elapsed; then
    the parked file is moved over the dump file and the child's real exit status is reported.  So the dump file is
    replaced at that virtual instant with the state of the fork instant, while the parent has gone on applying,
    receiving snapshots and losing connections in between.  (Children are not kept alive across simulator steps:
    a live copy-on-write child makes every page the parent touches fault, and 16 workers doing that stall each other.)"""

    def __getattr__(self, n):
        return getattr(os, n)

    def _exit(self, status):
        if EMU['on']:
            raise _ChildExit(status)
        os._exit(status)

    def fork(self):
        import sys
        from . import storage
        p = CUR
        if p is not None and p.dead:
            raise SimKill()
        if EMU['on']:
            return 0          # emulated child: the caller (ObsSerializer.serialize) runs the child's code in this process
        try:
            sys.stdout.flush()
            sys.stderr.flush()
        except Exception:
            pass
        pid = os.fork()
        if pid == 0:
            storage.IN_CHILD = True
            return 0
        try:
            _, status = os.waitpid(pid, 0)
        except OSError:
            status = 0x7f00
        register_child(p, pid, status, real=True)
        return pid

    def waitpid(self, pid, flags):
        ch = CHILDREN.get(pid)
        if ch is None:
            return os.waitpid(pid, flags)
        if ch.get('signalled'):
            return finish_child(ch, False)
        if (flags & os.WNOHANG) and CLK.now < ch['due']:
            return (0, 0)
        if ch.get('doomed'):
            if SIM is not None:
                SIM.mon.sit['fork_child_killed_by_signal_parent_alive'] += 1
            return finish_child(ch, False)
        return finish_child(ch, True)

    def kill(self, pid, sig):
        ch = CHILDREN.get(pid)
        if ch is None:
            return os.kill(pid, sig)
        # (towards the library the child is running and has not replaced the dump file yet: a fatal signal ends it there)
        ch['signalled'] = True
        if SIM is not None:
            SIM.mon.sit['fork_child_stopped_by_parent'] += 1
        return None


def register_child(p, pid, status, real):
    from . import storage
    dur = SIM.fork_rng.choice([0.0, 0.0, 0.03, 0.3, 1.5, 6.0]) if SIM is not None else 0.0
    ch = {'pid': pid, 'status': status, 'due': CLK.now + dur, 'proc': p, 't0': CLK.now, 'real': real,
          'parked': (p.conf.fullDumpFile + storage.CHILD_SUFFIX) if p is not None and p.conf.fullDumpFile else None}
    # fault: the child alone is killed by a signal (out-of-memory killer on the copy-on-write child, an operator's
    # kill) while its parent lives on and reaps it
    ch['doomed'] = SIM is not None and SIM.cfg.get('child_faults', True) and SIM.fork_rng.random() < 0.12
    CHILDREN[pid] = ch
    if p is not None:
        p.child = ch
    if SIM is not None:
        SIM.mon.obs['fork_children' if real else 'fork_children_emulated'] += 1
    return ch


def finish_child(ch, let_run):
    """let_run: the child finishes now - its snapshot replaces the dump file; otherwise it is killed before that
    (by a signal, by its parent, or together with its parent) and its exit status says so."""
    CHILDREN.pop(ch['pid'], None)
    parked = ch.get('parked')
    status = ch['status']
    if let_run:
        if status == 0 and parked and os.path.exists(parked):
            os.replace(parked, parked[:-len('.forkchild')])
    else:
        status = 9            # terminated by SIGKILL
        if parked:
            try:
                os.remove(parked)
            except OSError:
                pass
    p = ch.get('proc')
    if p is not None and getattr(p, 'child', None) is ch:
        p.child = None
    if p is not None and let_run:
        p.dump_version = getattr(p, 'dump_version', 1) + 1       # the child has replaced the dump file
    if SIM is not None:
        SIM.mon.obs['fork_children_finished' if let_run else 'fork_children_killed'] += 1
        if let_run and status != 0:
            SIM.mon.obs['fork_children_failed'] += 1
        if let_run and CLK.now - ch['t0'] > 0:
            SIM.mon.sit['fork_child_outlived_its_tick'] += 1
    return (ch['pid'], status)


class ObsSerializer(_ORIG_SERIALIZER):
    def __init__(self, *a, **kw):
        _ORIG_SERIALIZER.__init__(self, *a, **kw)
        self._vproc = CUR
        if CUR is not None:
            CUR.serializer = self

    def serialize(self, data, id):
        from . import storage
        p = self._vproc
        if p is not None and SIM is not None:
            SIM.mon.on_serialize(p, data, id)
            if getattr(self, '_Serializer__useFork', False) and getattr(self, '_Serializer__pid', 0) == 0:
                # real forks are expensive where many workers fork at once (about 300 ms each with 16 busy workers of this
                # sandbox): a run gets a budget of them, afterwards its nodes write their snapshots inline
                if SIM.forks_left <= 0:
                    return self.serialize_in_emulated_child(p, data, id)
                SIM.forks_left -= 1
        try:
            return _ORIG_SERIALIZER.serialize(self, data, id)
        finally:
            if storage.IN_CHILD and not EMU['on']:        # a snapshot child never returns into the simulation
                os._exit(70)

    def serialize_in_emulated_child(self, p, data, id):
        """The budget of real forks of this run is used up: the child's part of Serializer.serialize runs in this process -
        fork() answers 0, the rename is parked as for a real child, os._exit() ends it - and the parent's part (remember the
        pid, return) is done here.  What the library observes is the same: a child that holds the state of this instant
        and finishes at a drawn later instant."""
        from . import storage
        EMU['on'] = True
        storage.IN_CHILD = True
        status = 0
        try:
            _ORIG_SERIALIZER.serialize(self, data, id)
            status = 0x7f00          # (the child's code returned instead of exiting)
        except _ChildExit as e:
            status = (e.status & 0xff) << 8
        finally:
            storage.IN_CHILD = False
            EMU['on'] = False
        EMU['next_pid'] += 1
        pid = EMU['next_pid']
        register_child(p, pid, status, real=False)
        self._Serializer__pid = pid
        self._Serializer__currentID = id
        return None

    def deserialize(self):
        data = _ORIG_SERIALIZER.deserialize(self)
        p = self._vproc
        if p is not None and SIM is not None:
            SIM.mon.on_load(p, data)
        return data

    def setTransmissionData(self, data):
        r = _ORIG_SERIALIZER.setTransmissionData(self, data)
        p = self._vproc
        if p is not None and SIM is not None:
            SIM.mon.on_chunk_in(p, data, r)
        return r


# ---------------------------------------------------------------------------------------
# network model


class Conn(object):
    __slots__ = ('cid', 'ends', 'q', 'open', 'hello_done', 'acc_node', 'ro', 'last_rx')

    def __init__(self, cid, dialer, acceptor, ro):
        self.cid = cid
        self.last_rx = [CLK.now, CLK.now]         # last time each end read something (TcpConnection read timeout)
        self.ends = (dialer, acceptor)            # Proc objects (incarnation bound)
        self.q = (collections.deque(), collections.deque())   # q[0]: dialer->acceptor, q[1]: acceptor->dialer
        self.open = [True, True]
        self.hello_done = False
        self.acc_node = None                      # Node object under which the acceptor knows the dialer
        self.ro = ro

    def side_of(self, proc):
        if self.ends[0] is proc:
            return 0
        if self.ends[1] is proc:
            return 1
        return None


_PROBE = {}


def transport_closes_replaced_connection():
    """Behavioural probe of the real TCPTransport of the tree under test (on simulated sockets): when a
    second incoming connection identifies itself as a node that already has one, is the first one
    closed?  The message-level model of E1 follows the answer, so that it never is kinder (nor harsher)
    than the transport it stands for."""
    if 'closes' in _PROBE:
        return _PROBE['closes']
    try:
        from . import socksim
        import pysyncobj.transport as T
        import pysyncobj.tcp_connection as TC
        import pysyncobj.tcp_server as TS
        saved = (TC.socket, TS.socket, S.createPoller, socksim.NET)
        socksim.reset_net()
        socksim.install()
        net = socksim.NET
        net.current = 'A'

        class _Conf(object):
            bindAddress = None
            sendBufferSize = recvBufferSize = 65536
            connectionTimeout = 3.5
            connectionRetryTime = 5.0
            tcp_keepalive = None
            bindRetryTime = 1.0
            maxBindRetries = 0

        class _Stub(object):
            conf = _Conf()
            encryptor = None

            def __init__(self):
                self._poller = socksim.SimPoller()

            def addOnTickCallback(self, cb):
                pass

        stub = _Stub()
        t = T.TCPTransport(stub, TCPNode('10.9.9.1:1'), [TCPNode('10.9.9.2:1')])
        conns = []
        for _ in range(2):
            net.current = 'A'
            sa = socksim.FakeSocket()
            net.current = 'B'
            sb = socksim.FakeSocket()
            socksim.pair(sa, sb)
            net.current = 'A'
            c = TC.TcpConnection(poller=stub._poller, socket=sa, timeout=3.5)
            t._onNewIncomingConnection(c)
            t._onIncomingMessageReceived(c, '10.9.9.2:1')
            conns.append(c)
        closes = conns[0].state == TC.CONNECTION_STATE.DISCONNECTED
        TC.socket, TS.socket, S.createPoller, socksim.NET = saved
        _PROBE['closes'] = closes
    except Exception:
        _PROBE['closes'] = True
    return _PROBE['closes']


class SimTransport(Transport):
    """Mirrors the observable rules of TCPTransport (who dials, when each side
    reports connected, replacement of stale accepted connections)."""

    def __init__(self, syncObj, selfNode, otherNodes):
        Transport.__init__(self, syncObj, selfNode, otherNodes)
        self.proc = CUR
        CUR.transport = self
        self.selfNode = selfNode
        self.readonly = selfNode is None
        self.nodes = {}          # address -> Node   (members this process knows)
        self.conns = {}          # node id -> Conn   (current connection per peer, as in TCPTransport._connections)
        self.ro_counter = 0
        self.destroyed = False
        for n in otherNodes:
            self.addNode(n)

    # -- Transport interface ----------------------------------------------------------
    def addNode(self, node):
        self.nodes[node.id] = node

    def dropNode(self, node):
        c = self.conns.pop(node.id, None)
        if c is not None:
            side = c.side_of(self.proc)
            if side is not None and c.open[side]:
                c.open[side] = False
                c.q[1 - side].clear()
        self.nodes.pop(node.id, None)

    def should_dial(self, nid):
        if self.destroyed or nid not in self.nodes:
            return False
        return self.readonly or self.selfNode.id > nid

    def send(self, node, message):
        p = self.proc
        if p.dead:
            return False
        c = self.conns.get(node.id)
        if c is None:
            return False
        side = c.side_of(p)
        if side is None or not c.open[side]:
            return False
        sim = p.sim
        if CLK.now - c.last_rx[side] > p.conf.connectionTimeout:
            # TcpConnection.send -> __trySendBuffer -> __processConnectionTimeout: nothing was read
            # for longer than connectionTimeout, the connection is torn down inside send()
            sim.stats['read_timeout_close'] += 1
            sim.notice_drop(c, side)
            return False
        if not c.open[1 - side] and sim.cfg.get('epipe') and sim.epipe_rng.random() < sim.cfg['epipe']:
            # the other end is gone (closed, or its process was killed) and its RST has come back: this send() fails with
            # EPIPE / ECONNRESET and TcpConnection.send tears the connection down on the spot - in the middle of whatever
            # loop of the library is sending
            sim.stats['send_fails_peer_gone'] += 1
            sim.mon.sit['disconnect_noticed_inside_send'] += 1
            sim.notice_drop(c, side)
            return False
        data = _pickle.dumps(message, 2)
        c.q[side].append(data)
        sim.mon.on_send(p, node.id, c, message, len(data))
        return True

    def destroy(self):
        self.destroyed = True
        for nid in list(self.conns):
            c = self.conns.pop(nid)
            side = c.side_of(self.proc)
            if side is not None and c.open[side]:
                c.open[side] = False
                c.q[1 - side].clear()
        self.setOnMessageReceivedCallback(None)
        self.setOnNodeConnectedCallback(None)
        self.setOnNodeDisconnectedCallback(None)
        self.setOnReadonlyNodeConnectedCallback(None)
        self.setOnReadonlyNodeDisconnectedCallback(None)


# ---------------------------------------------------------------------------------------
# the replicated user class


def canon_value(x):
    """Order-independent canonical form (sets, dicts) for digests."""
    if isinstance(x, dict):
        return ('D', tuple(sorted(((canon_value(k), canon_value(v)) for k, v in x.items()), key=repr)))
    if isinstance(x, (set, frozenset)):
        return ('S', tuple(sorted((canon_value(v) for v in x), key=repr)))
    if isinstance(x, (list, collections.deque)):
        return ('L', tuple(canon_value(v) for v in x))
    if isinstance(x, tuple):
        return ('T', tuple(canon_value(v) for v in x))
    if isinstance(x, Node):
        return ('N', x.id)
    return x


def kv_new():
    return {'l': [], 'm': {}, 'h': 0, 'n': 0}


class ReplRaise(Exception):
    pass


def kv_apply(d, op, args):
    uid = args[0]
    if op == 'append':
        d['l'].append(uid)
        r = len(d['l'])
    elif op == 'put':
        r = d['m'].get(args[1])
        d['m'][args[1]] = uid
    elif op == 'cas':
        cur = d['m'].get(args[1])
        if cur == args[2]:
            d['m'][args[1]] = uid
            r = True
        else:
            r = (False, cur)
    elif op == 'popf':
        r = d['l'].pop(0) if d['l'] else None
    elif op == 'big':
        r = h32(args[1:])
        d['m']['big'] = r
    elif op == 'failif':
        # deterministic from replicated state: partial effect, then raise
        d['m']['f'] = uid
        if len(d['l']) % args[1] == 0:
            d['n'] += 1
            d['h'] = h32(d['h'], op, uid, 'raise')
            k = uid % 8
            if k == 0:
                raise ReplRaise()           # exceptions without arguments are exceptions too
            if k == 1:
                assert False                # message-less assert, like ReplList.reset(<not a list>)
            if k == 2:
                raise KeyError(uid)
            if k == 3:
                # a replicated method may call into the library (a sync call on another object that times out, ...)
                raise S.SyncObjException('Timeout')
            if k == 4:
                raise IndexError('pop from empty list')
            if k == 5:
                raise StopIteration()
            if k == 6:
                raise ReplRaise({'uid': uid}, [1, 2])     # non-string, several arguments
            raise ReplRaise(uid)
        r = 'ok'
    else:
        raise ValueError(op)
    d['n'] += 1
    d['h'] = h32(d['h'], op, uid, r)
    return (uid, d['n'], d['h'], r)


class KV(SyncObj):
    def __init__(self, selfNode, otherNodes, conf, consumers):
        SyncObj.__init__(self, selfNode, otherNodes, conf=conf, consumers=consumers,
                         nodeClass=TCPNode, transportClass=SimTransport)
        self.d = kv_new()          # assigned after __init__: part of every snapshot

    def _applyCommand(self, command, callback, commandType=None):
        if SIM is not None and commandType is not None:
            SIM.mon.on_submit_bytes(S._bchr(commandType) + command)
        return SyncObj._applyCommand(self, command, callback, commandType)

    @replicated
    def append(self, uid):
        return kv_apply(self.d, 'append', (uid,))

    @replicated
    def put(self, uid, k):
        return kv_apply(self.d, 'put', (uid, k))

    @replicated
    def cas(self, uid, k, old):
        return kv_apply(self.d, 'cas', (uid, k, old))

    @replicated
    def popf(self, uid):
        return kv_apply(self.d, 'popf', (uid,))

    @replicated
    def big(self, uid, *args, **kwargs):
        return kv_apply(self.d, 'big', (uid, args, canon_value(kwargs)))

    @replicated
    def failif(self, uid, mod):
        return kv_apply(self.d, 'failif', (uid, mod))


# ---------------------------------------------------------------------------------------
# a process


class Proc(object):
    def __init__(self, sim, key, addr, inc):
        self.sim = sim
        self.key = key            # stable name across incarnations ('10.0.0.1:4321' or 'ro0')
        self.addr = addr          # None for read-only nodes
        self.inc = inc
        self.dead = False
        self.obj = None
        self.journal = None
        self.serializer = None
        self.transport = None
        self.consumers = []
        self.clock_off = 0.0
        self.events = []          # apply / load events of the current step
        self.escaped = []
        # monitor shadow
        self.last_commit = None
        self.last_applied = None
        self.was_leader = False
        self.leader_term = None
        self.leader_since = None
        self.heard = {}
        self.applied_uids = set()
        self.dropped_committed = set()
        self.raised_pos = set()
        self.journal_op = None
        self.killed_at = None
        self.full_checks = 0
        self.born_step = 0

    def __repr__(self):
        return '<%s#%d>' % (self.key, self.inc)

    @property
    def voter(self):
        return self.addr is not None


def _subst_uid(x, uid):
    if isinstance(x, str):
        return uid if x == '$UID' else x
    if isinstance(x, tuple):
        return tuple(_subst_uid(v, uid) for v in x)
    if isinstance(x, list):
        return [_subst_uid(v, uid) for v in x]
    if isinstance(x, dict):
        return dict((k, _subst_uid(v, uid)) for k, v in x.items())
    return x


class EnterProc(object):
    __slots__ = ('p', 'prev', 'prevoff')

    def __init__(self, p):
        self.p = p

    def __enter__(self):
        global CUR
        self.prev = CUR
        self.prevoff = CLK.off
        CUR = self.p
        CLK.off = self.p.clock_off

    def __exit__(self, *a):
        global CUR
        CUR = self.prev
        CLK.off = self.prevoff
        return False


# ---------------------------------------------------------------------------------------
# the simulator


DEFAULT_WEIGHTS = {
    'tick': 30, 'deliver': 55, 'submit': 6, 'drop': 1.5, 'connect': 2.5, 'partition': 0.3, 'heal': 0.5,
    'compact': 0.4, 'kill': 0.0, 'restart': 0.0, 'member': 0.0, 'ro': 0.0,
}

DTS = (0.0, 0.001, 0.01, 0.05, 0.2, 2.0)
DT_W = (2, 6, 8, 5, 2, 0.15)


class Sim(object):
    def __init__(self, cfg, seed):
        global SIM
        self.cfg = cfg
        self.seed = seed
        self.rng = random.Random(seed * 1000003 + 17)
        random.seed(seed * 7919 + 1)
        CLK.reset()
        CLK.eps = cfg.get('clock_eps', 2e-5)
        del RAISED[:]
        SIM = self
        self.step = 0
        self.actions = []
        self.procs = {}             # key -> current Proc
        self.all_procs = []
        self.conns = {}             # cid -> Conn (at least one open end)
        self.next_cid = 0
        self.blocked = set()        # frozenset({keyA, keyB})
        self.uid = 0
        self.subs = {}              # uid -> dict
        self.stats = collections.Counter()
        self.escaped = collections.Counter()
        self.violations = []
        self.stop_props = cfg.get('stop_props')        # None: every violation ends the run
        self.other_violations = {}
        self.tmpdir = None
        self.inconclusive = None
        self.phase = 'fault'
        self.trace = collections.deque(maxlen=cfg.get('trace_len', 300))
        from .monitors import Monitors
        self.mon = Monitors(self)
        S.createJournal = _create_journal
        S.Serializer = ObsSerializer
        import pysyncobj.serializer as _SERMOD
        _SERMOD.os = _ForkOs()
        self.fork_rng = random.Random(seed * 7919 + 5)
        self.epipe_rng = random.Random(seed * 104729 + 11)
        self.kw_rng = random.Random(seed * 15485863 + 7)
        self.forks_left = cfg.get('fork_budget', 1)
        S.createPoller = lambda t: NullPoller()
        install_virtual_time(self._battery_sleep)
        self.msg_cap = cfg.get('msg_cap', 400000)
        self.weights = dict(DEFAULT_WEIGHTS)
        self.weights.update(cfg.get('weights', {}))
        self.bias = cfg.get('bias', 'none')
        self.slow = None
        self.members0 = ['10.0.0.%d:4321' % (i + 1) for i in range(cfg.get('n', 3))]
        self.ro_keys = ['ro%d' % i for i in range(cfg.get('n_ro', 0))]
        self.lockthreads = None
        self.forced = collections.deque()

    def _battery_sleep(self, s):
        lt = self.lockthreads
        if lt is not None:
            lt.park()
        else:
            CLK.now += max(0.0, s)

    # -- construction -----------------------------------------------------------------
    def scratch(self):
        if self.tmpdir is None:
            import tempfile
            self.tmpdir = tempfile.mkdtemp(prefix='e1-', dir=scratch_root())
        return self.tmpdir

    def make_conf(self, key):
        c = self.cfg
        kw = dict(
            autoTick=False,
            appendEntriesUseBatch=c.get('use_batch', True),
            appendEntriesBatchSizeBytes=c.get('batch', 2 ** 16),
            logCompactionMinEntries=c.get('compact_min', 10 ** 9),
            logCompactionMinTime=c.get('compact_time', 10 ** 9),
            logCompactionBatchSize=c.get('chunk', 2 ** 16),
            logCompactionSplit=c.get('compact_split', False),
            leaderFallbackTimeout=c.get('fallback', 30.0),
            commandsQueueSize=c.get('queue', 100000),
            commandsWaitLeader=c.get('wait_leader', True),
            dynamicMembershipChange=c.get('dynamic', False),
            raftMinTimeout=c.get('raft_min', 0.4),
            raftMaxTimeout=c.get('raft_max', 1.4),
            appendEntriesPeriod=c.get('ae_period', 0.1),
            useFork=(c.get('ser_mode') == 'fork'),
        )
        j = c.get('journal', 'memory')
        if key.startswith('ro'):
            j = 'memory'       # observers (re)join as fresh processes
        safe = key.replace(':', '_')
        if j in ('file', 'file+dump'):
            kw['journalFile'] = os.path.join(self.scratch(), safe + '.journal')
        if j in ('file+dump', 'dump'):
            kw['fullDumpFile'] = os.path.join(self.scratch(), safe + '.dump')
            if c.get('ser_mode') in ('user', 'user_async'):
                kw['_user_serializer'] = c['ser_mode']       # replaced by functions bound to the process in start_proc
        return kw

    def user_serializer_functions(self, p, mode):
        """Serializer functions a user would supply (conf.serializer / deserializer / serializeChecker): they
        store the object and consumer state themselves next to the opaque data the library hands them, in the
        layout the library's own serializer uses (so the on-disk oracle reads both), and restore it on load."""
        import gzip
        import pysyncobj.pickle as PK
        import pysyncobj.serializer as SERMOD
        from pysyncobj.config import SERIALIZER_STATE
        sim = self

        def user_ser(fileName, data):
            last, prev, cluster = data
            state = {'d': p.obj.d}
            if p.consumers:
                state = [state] + [c._serialize() for c in p.consumers]
            sim.mon.obs['user_serialize_calls'] += 1
            sim.mon.on_serialize(p, (state, last, prev, cluster), last[1])
            with getattr(SERMOD, 'open', open)(fileName, 'wb') as f:
                f.write(gzip.compress(PK.dumps((state, last, prev, cluster))))
            if mode == 'user_async':
                p.user_ser_state = {'left': sim.fork_rng.choice([0, 1, 3, 12]), 'fail': sim.fork_rng.random() < 0.1}

        def user_deser(fileName):
            with open(fileName, 'rb') as f:
                data = PK.loads(gzip.decompress(f.read()))
            state = data[0]
            selfd = state[0] if p.consumers else state
            p.obj.d = selfd['d']
            for c, st in zip(p.consumers, state[1:] if p.consumers else []):
                c._deserialize(st)
            sim.mon.obs['user_deserialize_calls'] += 1
            sim.mon.sit['user_serializer_snapshot_loaded'] += 1
            return tuple(data[1:])

        def checker():
            st = getattr(p, 'user_ser_state', None)
            if st is None:
                return SERIALIZER_STATE.NOT_SERIALIZING
            if st['left'] > 0:
                st['left'] -= 1
                sim.mon.sit['user_async_serializing_observed'] += 1
                return SERIALIZER_STATE.SERIALIZING
            p.user_ser_state = None
            return SERIALIZER_STATE.FAILED if st['fail'] else SERIALIZER_STATE.SUCCESS

        return user_ser, user_deser, (checker if mode == 'user_async' else None)

    def make_consumers(self, for_model=False):
        kinds = self.cfg.get('consumers', [])
        if not kinds:
            return []
        import pysyncobj.batteries as B
        out = []
        for k in kinds:
            if k == 'list':
                out.append(B.ReplList())
            elif k == 'dict':
                out.append(B.ReplDict())
            elif k == 'set':
                out.append(B.ReplSet())
            elif k == 'counter':
                out.append(B.ReplCounter())
            elif k == 'queue':
                out.append(B.ReplQueue(5))
            elif k == 'pqueue':
                out.append(B.ReplPriorityQueue(5))
        return out

    def user_class(self):
        return KV

    def final_command(self, p):
        """A command submitted on p after the cluster converged (bounded-liveness clause of C05)."""
        return ('S', p.key, 'kv', 'append', ('$UID',))

    def start_proc(self, key, addr, others, inc=0, first_tick=True):
        p = Proc(self, key, addr, inc)
        p.clock_off = self.rng.choice([0.0, 12345.0, -500.0, 777.25]) if self.cfg.get('clock_offsets', True) else 0.0
        p.born_step = self.step
        p.born_time = CLK.now
        p.start_others = list(others)
        prev = self.procs.get(key)
        p.first_list = getattr(prev, 'first_list', None) if prev is not None else None
        if p.first_list is None:
            p.first_list = list(others)
        self.procs[key] = p
        self.all_procs.append(p)
        kw = self.make_conf(key)
        um = kw.pop('_user_serializer', None)
        if um is not None:
            kw['serializer'], kw['deserializer'], chk = self.user_serializer_functions(p, um)
            if chk is not None:
                kw['serializeChecker'] = chk
        self.mon.conf_hooks(p, kw)
        conf = SyncObjConf(**kw)
        p.conf = conf
        p.consumers = self.make_consumers()
        with EnterProc(p):
            obj = self.user_class()(addr, list(others), conf, p.consumers)
        p.obj = obj
        self.mon.on_proc_start(p)
        if first_tick:
            self.mon.before_tick(p)
            self.run_node(p, obj.doTick, 0.0)
            self.mon.after_tick(p)
            self.mon.after_step(p, ('T', key, 0.0))
        return p

    def boot(self):
        for a in self.members0:
            self.start_proc(a, a, [b for b in self.members0 if b != a])
        for k in self.ro_keys:
            if self.cfg.get('ro_start', True):
                self.start_proc(k, None, list(self.members0))
        if self.cfg.get('preconnect', True):
            for p in list(self.procs.values()):
                for nid in list(p.transport.nodes):
                    self.do_connect(p.key, nid)

    # -- low-level network ops --------------------------------------------------------
    def pair_blocked(self, a, b):
        return frozenset((a, b)) in self.blocked

    def can_connect(self, dk, ak):
        d = self.procs.get(dk)
        a = self.procs.get(ak)
        if d is None or a is None or d.dead or a.dead or not a.voter:
            return False
        t = d.transport
        if not t.should_dial(ak):
            return False
        c = t.conns.get(ak)
        if c is not None:
            side = c.side_of(d)
            if side is not None and c.open[side]:
                return False
        if self.pair_blocked(dk, ak):
            return False
        if a.transport.destroyed:
            return False
        return True

    def do_connect(self, dk, ak):
        if not self.can_connect(dk, ak):
            return False
        d = self.procs[dk]
        a = self.procs[ak]
        c = Conn(self.next_cid, d, a, d.transport.readonly)
        self.next_cid += 1
        self.conns[c.cid] = c
        d.transport.conns[ak] = c
        hello = 'readonly' if d.transport.readonly else d.addr
        c.q[0].append(('HELLO', hello))
        self.mon.on_conn_event(d, 'dial', ak, c)
        node = d.transport.nodes[ak]
        self.run_node(d, d.transport._onNodeConnected, node)
        self.stats['connect'] += 1
        return True

    def notice_drop(self, c, side):
        """Endpoint `side` of conn c learns that the connection is gone."""
        if not c.open[side]:
            return False
        p = c.ends[side]
        c.open[side] = False
        c.q[1 - side].clear()
        if not c.open[1 - side]:
            self.conns.pop(c.cid, None)
        if p.dead:
            return True
        t = p.transport
        if side == 0:
            peer = c.ends[1].key
            if t.conns.get(peer) is c:
                node = t.nodes.get(peer)
                self.mon.on_conn_event(p, 'lost', peer, c)
                if node is not None:
                    self.run_node(p, t._onNodeDisconnected, node)
        else:
            n = c.acc_node
            if n is not None and t.conns.get(n.id) is c:
                self.mon.on_conn_event(p, 'lost', n.id, c)
                if c.ro:
                    t.conns.pop(n.id, None)
                    self.run_node(p, t._onReadonlyNodeDisconnected, n)
                elif n.id in t.nodes:
                    self.run_node(p, t._onNodeDisconnected, n)
        return True

    def deliverable(self, c, d):
        """Messages in c.q[d] flow from end d to end 1-d."""
        if not c.q[d] or not c.open[1 - d]:
            return False
        a, b = c.ends
        if a.key != b.key and self.pair_blocked(a.key, b.key):
            return False
        if getattr(c.ends[1 - d], 'deaf', False):
            return False          # its last tick raised before it reached its sockets
        return not c.ends[1 - d].dead

    def do_deliver(self, c, d):
        if not self.deliverable(c, d):
            return False
        rcv = c.ends[1 - d]
        snd = c.ends[d]
        item = c.q[d].popleft()
        c.last_rx[1 - d] = CLK.now
        t = rcv.transport
        self.stats['deliver'] += 1
        if isinstance(item, tuple) and item[0] == 'HELLO':
            hello = item[1]
            c.hello_done = True
            if hello == 'readonly':
                node = Node(str(t.ro_counter))
                t.ro_counter += 1
                c.acc_node = node
                t.conns[node.id] = c
                self.mon.on_conn_event(rcv, 'accept_ro', node.id, c)
                self.run_node(rcv, t._onReadonlyNodeConnected, node)
            else:
                node = t.nodes.get(hello)
                if node is None:
                    # unknown peer: acceptor closes
                    c.open[1] = False
                    c.q[0].clear()
                    self.stats['hello_rejected'] += 1
                    if not c.open[0]:
                        self.conns.pop(c.cid, None)
                    return True
                c.acc_node = node
                old = t.conns.get(node.id)
                if old is not None and old is not c:
                    self.stats['stale_replaced'] += 1
                    # TCPTransport closes the connection that is being replaced (silently: it is
                    # no longer registered when its disconnect callback runs)
                    if old.open[1] and old.ends[1] is rcv and transport_closes_replaced_connection():
                        old.open[1] = False
                        old.q[0].clear()
                        if not old.open[0]:
                            self.conns.pop(old.cid, None)
                t.conns[node.id] = c
                self.mon.on_conn_event(rcv, 'accept', node.id, c)
                self.run_node(rcv, t._onNodeConnected, node)
            return True
        msg = _pickle.loads(item)
        if d == 0:
            node = c.acc_node
            if node is None:
                return True
        else:
            node = rcv.transport.nodes.get(snd.key)
            if node is None:
                node = TCPNode(snd.key)
        self.mon.on_deliver(rcv, snd, c, msg)
        self.run_node(rcv, t._onMessageReceived, node, msg)
        return True

    # -- running node code --------------------------------------------------------------
    def run_node(self, p, fn, *args):
        if p.dead:
            return None
        with EnterProc(p):
            try:
                return fn(*args)
            except SimKill:
                p.dead = True
            except Violation:
                raise
            except Exception as e:
                if p.dead:
                    # the process was killed inside this call (a bare `except:` of the library swallowed the kill and the
                    # zombie ran on with all its storage primitives suppressed): what it raises afterwards never happened
                    self.stats['raised_after_kill_instant'] += 1
                    return None
                tb = traceback.extract_tb(e.__traceback__)
                loc = 'unknown'
                for fr in reversed(tb):
                    if 'pysyncobj' in fr.filename:
                        loc = '%s:%s' % (os.path.basename(fr.filename), fr.name)
                        break
                sig = '%s@%s' % (type(e).__name__, loc)
                self.escaped[sig] += 1
                p.escaped.append((self.step, sig, repr(e)[:200]))
                self.mon.on_escaped(p, sig, e)
        return None

    def tick_node(self, p):
        """One doTick.  The library polls its sockets at the very end of a tick: a tick that raises has not polled, so nothing
        can be handed to that node until one of its ticks completes (with the auto-tick thread: logged, and the loop goes on)."""
        n0 = len(p.escaped)
        self.run_node(p, p.obj.doTick, 0.0)
        if len(p.escaped) > n0:
            if not getattr(p, 'deaf', False):
                self.mon.sit['tick_raised_node_deaf'] += 1
            p.deaf = True
        else:
            p.deaf = False

    # -- actions ---------------------------------------------------------------------
    def act(self, a):
        """Execute one explicit action tuple; returns the touched Proc or None."""
        k = a[0]
        if k == 'T':
            p = self.procs.get(a[1])
            if p is None or p.dead:
                return None
            CLK.now += a[2]
            self.stats['tick'] += 1
            self.mon.before_tick(p)
            self.tick_node(p)
            self.mon.after_tick(p)
            return p
        if k == 'D':
            c = self.conns.get(a[1])
            if c is None:
                return None
            if self.do_deliver(c, a[2]):
                return c.ends[1 - a[2]]
            return None
        if k == 'X':
            c = self.conns.get(a[1])
            if c is None:
                return None
            if self.notice_drop(c, a[2]):
                self.stats['drop'] += 1
                return c.ends[a[2]]
            return None
        if k == 'C':
            if self.do_connect(a[1], a[2]):
                return self.procs[a[1]]
            return None
        if k == 'P':
            self.blocked = set(frozenset(x) for x in a[1])
            self.stats['partition'] += 1
            self.mon.on_partition()
            return None
        if k == 'H':
            self.blocked = set()
            self.stats['heal'] += 1
            self.mon.on_partition()
            return None
        if k == 'S':
            return self.do_submit(a)
        if k == 'K':
            p = self.procs.get(a[1])
            if p is None or p.dead:
                return None
            self.stats['compact'] += 1
            p.obj.forceLogCompaction()
            return p
        return self.act_ext(a)

    def act_ext(self, a):
        k = a[0]
        if k == 'RO':
            key = a[2]
            p = self.procs.get(key)
            if a[1] == 'join':
                if p is not None and not p.dead:
                    return None
                inc = (p.inc + 1) if p is not None else 0
                members = self.ro_join_members()
                p = self.start_proc(key, None, members, inc=inc)
                self.stats['ro_join'] += 1
                self.mon.sit['ro_join'] += 1
                return p
            if a[1] == 'leave':
                if p is None or p.dead:
                    return None
                self.run_node(p, p.obj.destroy)
                p.dead = True
                p.left = True
                self.stats['ro_leave'] += 1
                self.mon.sit['ro_leave'] += 1
                return None
        if k == 'KILL':
            p = self.procs.get(a[1])
            if p is None or p.dead:
                return None
            self.kill_proc(p)
            return None
        if k == 'R':
            p = self.procs.get(a[1])
            if p is None or not p.dead or getattr(p, 'left', False) and p.voter:
                return None
            return self.restart_proc(p, a[2] if len(a) > 2 else None)
        if k == 'KP':
            # ('KP', key, k, inner action): run the inner action on `key` with a kill at its k-th storage primitive
            p = self.procs.get(a[1])
            if p is None or p.dead:
                return None
            from . import storage
            storage.arm(p, a[2])
            try:
                self.act(tuple(a[3]))
            finally:
                fired = storage.disarm()
            if not p.dead:
                self.mon.after_step(p, tuple(a[3]))
                self.kill_proc(p)
                self.stats['kill_after_step'] += 1
            else:
                self.mon.on_kill(p)
                self.finish_kill(p)
                self.stats['kill_at_primitive'] += 1
                self.mon.obs['kill_at_' + str(fired)] += 1
                self.mon.after_step(p, tuple(a[3]))
            return None
        return None

    def current_members(self):
        return list(self.members0)

    def ro_join_members(self):
        return self.current_members()

    def kill_proc(self, p):
        """Process kill between two steps: memory gone, files as they are, sockets closed by the kernel."""
        self.mon.on_kill(p)
        p.dead = True
        self.finish_kill(p)

    def finish_kill(self, p):
        self.stats['kill'] += 1
        self.mon.kills += 1
        for c in list(self.conns.values()):
            side = c.side_of(p)
            if side is not None and c.open[side]:
                c.open[side] = False
                c.q[1 - side].clear()
                if not c.open[1 - side]:
                    self.conns.pop(c.cid, None)
        from . import storage
        ch = getattr(p, 'child', None)
        if ch is not None:
            # a snapshot child is running: it dies with its parent (before it wrote anything), or - when the
            # kill fell between two steps - it may as well survive its parent and finish (kill -9 of the parent only)
            survive = getattr(p, 'killsnap', None) is None and self.fork_rng.random() < 0.5
            finish_child(ch, survive)
            if survive:
                self.mon.sit['fork_child_survived_its_parent'] += 1
        storage.bury(p)

    def restart_proc(self, p, kill_k=None):
        """New incarnation = construction + first tick (a real process loads its dump file at the start
        of its first tick, before its poller can hand it any message).  kill_k: kill at the k-th
        storage primitive of that first tick."""
        members = [m for m in self.boot_members(p) if m != p.key]
        q = self.start_proc(p.key, p.addr, members, inc=p.inc + 1, first_tick=False)
        self.stats['restart'] += 1
        self.mon.on_restart(p, q)
        if kill_k is not None:
            from . import storage
            storage.arm(q, kill_k)
        try:
            self.mon.before_tick(q)
            self.tick_node(q)
        finally:
            if kill_k is not None:
                fired = storage.disarm()
        if q.dead:
            self.mon.on_kill(q)
            self.finish_kill(q)
            self.stats['kill_at_primitive'] += 1
            self.mon.sit['kill_during_first_tick'] += 1
            self.mon.obs['kill_at_' + str(fired)] += 1
            self.mon.after_step(q, ('T', q.key, 0.0))
            return None
        self.mon.after_tick(q)
        self.mon.after_step(q, ('T', q.key, 0.0))
        return q

    def boot_members(self, p):
        return list(self.members0)

    # -- submissions -----------------------------------------------------------------
    def new_uid(self):
        self.uid += 1
        return 100000 + self.uid

    def do_submit(self, a):
        # ('S', key, target, method, args)   args[0] is the uid placeholder None
        _, key, target, method, args = a[:5]
        kwargs = a[5] if len(a) > 5 else {}
        p = self.procs.get(key)
        if p is None or p.dead:
            return None
        uid = self.new_uid()
        args = _subst_uid(args, uid)
        sub = {'uid': uid, 'key': key, 'inc': p.inc, 'target': target, 'method': method, 'args': args, 'kwargs': kwargs,
               'step': self.step, 'cbs': [], 'bytes': None, 't': CLK.now}
        self.subs[uid] = sub
        self.mon.on_submit(p, sub)
        obj = p.obj if target == 'kv' else p.consumers[target]
        cb = self.make_cb(p, sub)
        self.mon.cur_sub = sub
        try:
            self.run_node(p, lambda: getattr(obj, method)(*args, callback=cb, **kwargs))
        finally:
            self.mon.cur_sub = None
        self.stats['submit'] += 1
        return p

    def make_cb(self, p, sub):
        def cb(res, err):
            if p.dead:
                return
            self.mon.on_callback(p, sub, res, err)
        return cb

    # -- adversary -------------------------------------------------------------------
    def live(self):
        return [p for p in self.procs.values() if not p.dead]

    KWFORMS = {
        # (target kind, method) -> names of the positional parameters (the first one of the user class carries the uid)
        ('kv', 'put'): ('uid', 'k'), ('kv', 'cas'): ('uid', 'k', 'old'), ('kv', 'failif'): ('uid', 'mod'),
        ('list', 'insert'): ('position', 'element'), ('list', 'remove'): ('element',), ('list', 'reset'): ('newData',),
        ('dict', 'set'): ('key', 'value'), ('dict', 'setdefault'): ('key', 'default'), ('dict', 'pop'): ('key', 'default'),
        ('set', 'remove'): ('item',), ('set', 'discard'): ('item',), ('set', 'add'): ('item',), ('counter', 'add'): ('value',),
    }

    def gen_submit(self):
        a = self.gen_submit_positional()
        kw = self.cfg.get('kwcalls')
        if a is None or not kw or self.kw_rng.random() >= kw:
            return a
        # the same call with its trailing arguments passed by keyword (the command then carries a dictionary too)
        target = a[2]
        kind = 'kv' if target == 'kv' else self.cfg.get('consumers', [])[target]
        names = self.KWFORMS.get((kind, a[3]))
        args = tuple(a[4])
        if names is None or len(names) != len(args):
            return a
        keep = 1 if kind == 'kv' else self.kw_rng.randrange(0, len(args))       # (the uid placeholder stays positional)
        if keep >= len(args):
            return a
        kwargs = dict(zip(names[keep:], args[keep:]))
        if any(isinstance(v, str) and '$UID' in v or v == '$UID' or isinstance(v, (list, tuple)) and '$UID' in v for v in kwargs.values()):
            return a
        return ('S', a[1], target, a[3], args[:keep], kwargs)

    def gen_submit_positional(self):
        rng = self.rng
        ps = self.live()
        if not ps:
            return None
        p = rng.choice(ps)
        cons = self.cfg.get('consumers', [])
        if cons and rng.random() < 0.35:
            i = rng.randrange(len(cons))
            k = cons[i]
            if k == 'list':
                m, args = rng.choice([('append', ('$UID',)), ('insert', (rng.randrange(3), '$UID')), ('extend', (['$UID', 7],))])
                args = tuple(args)
            elif k == 'dict':
                m, args = rng.choice([('set', (rng.randrange(4), '$UID')), ('setdefault', (rng.randrange(4), '$UID')),
                                      ('pop', (rng.randrange(4), '$UID'))])
            elif k == 'set':
                m, args = rng.choice([('add', ('$UID',)), ('discard', ('$UID',))])
            elif k == 'counter':
                m, args = 'add', ('$UID',)
            else:
                m, args = rng.choice([('put', (('$UID',),)), ('get', ('$UID',))])
            return ('S', p.key, i, m, args)
        if self.cfg.get('raising') and rng.random() < 0.3:
            c = rng.random()
            if c < 0.5:
                return ('S', p.key, 'kv', 'failif', ('$UID', rng.choice([1, 2, 3])))
            if c < 0.6 and 'list' in cons:
                return ('S', p.key, cons.index('list'), 'reset', ('not-a-list-$UID',))      # AssertionError() without arguments
            if c < 0.7 and 'list' in cons:
                return ('S', p.key, cons.index('list'), 'remove', (rng.randrange(5),))
            if c < 0.85 and 'list' in cons:
                return ('S', p.key, cons.index('list'), 'pop', ())
            if 'set' in cons:
                return ('S', p.key, cons.index('set'), 'remove', (rng.randrange(5),))
        r = rng.random()
        if r < 0.45:
            return ('S', p.key, 'kv', 'append', ('$UID',))
        if r < 0.65:
            return ('S', p.key, 'kv', 'put', ('$UID', rng.randrange(4)))
        if r < 0.8:
            return ('S', p.key, 'kv', 'cas', ('$UID', rng.randrange(4), rng.choice([None, 100000 + rng.randrange(1, self.uid + 2)])))
        if r < 0.97 or not self.cfg.get('big_args'):
            return ('S', p.key, 'kv', 'popf', ('$UID',))
        return ('S', p.key, 'kv', 'big', ('$UID', 'x' * rng.choice(self.cfg['big_args'] + self.big_exact_sizes())))

    def big_exact_sizes(self):
        """Argument sizes for which the pickled log entry is (within a byte or two, depending on index and term) an exact
        multiple of appendEntriesBatchSizeBytes: the boundary of the chunked-entry path."""
        if getattr(self, '_big_exact', None) is None:
            import pysyncobj.pickle as PK
            b = self.cfg.get('batch', 65536)
            out = []
            if 40 <= b <= 8192:
                cmd = b'\x00' + PK.dumps((4, (100123, 'x' * 1000)))
                ovh = len(PK.dumps((cmd, 25, 1))) - 1000
                for k in (1, 2, 3):
                    for d in (-2, -1, 0, 1, 2, 3):
                        n = k * b - ovh + d
                        if n > 0:
                            out.append(n)
            self._big_exact = out
        return self._big_exact

    def deliver_candidates(self):
        out = []
        for c in self.conns.values():
            for d in (0, 1):
                if self.deliverable(c, d):
                    out.append((c, d))
        return out

    def gen_action(self):
        rng = self.rng
        if self.forced:
            return self.forced.popleft()
        lc = self.mon.last_snapshot_conn
        if lc is not None:
            self.mon.last_snapshot_conn = None
            c = self.conns.get(lc)
            if c is not None and self.cfg.get('flapxfer') and rng.random() < self.cfg['flapxfer'] and c.open[0] and c.open[1]:
                # break the connection in the middle of a snapshot transfer and re-establish it at once
                first = rng.choice([0, 1])
                self.forced.append(('X', c.cid, 1 - first))
                self.forced.append(('C', c.ends[0].key, c.ends[1].key))
                self.mon.sit['snapshot_transfer_restarted'] += 1
                return ('X', c.cid, first)
        lv = self.mon.last_voter
        if lv is not None:
            self.mon.last_voter = None
            if self.cfg.get('votekill') and rng.random() < self.cfg['votekill']:
                p = self.procs.get(lv)
                if p is not None and not p.dead:
                    self.mon.sit['vote_granted_then_killed'] += 1
                    self.forced.append(('R', lv))
                    # deliver a competing vote request right after the restart, if one is (or gets) queued
                    return ('KILL', lv)
        w = self.weights
        kinds = list(w.keys())
        kind = rng.choices(kinds, [w[k] for k in kinds])[0]
        live = self.live()
        if kind == 'deliver':
            cands = self.deliver_candidates()
            if cands:
                if self.bias == 'ackstarve' and len(cands) > 1:
                    # prefer leader->follower traffic, starve replies
                    ws = []
                    for c, d in cands:
                        head = c.q[d][0]
                        isreply = isinstance(head, bytes) and b'next_node_idx' in head[:80]
                        ws.append(0.08 if isreply else 1.0)
                    c, d = rng.choices(cands, ws)[0]
                elif self.slow is not None and len(cands) > 1:
                    ws = [0.05 if c.ends[1 - d].key == self.slow else 1.0 for c, d in cands]
                    c, d = rng.choices(cands, ws)[0]
                else:
                    c, d = rng.choice(cands)
                return ('D', c.cid, d)
            kind = 'tick'
        if kind == 'submit':
            a = self.gen_submit()
            if a is not None:
                return a
            kind = 'tick'
        if kind == 'drop':
            cs = [c for c in self.conns.values()]
            if cs:
                c = rng.choice(cs)
                sides = [s for s in (0, 1) if c.open[s]]
                if sides:
                    return ('X', c.cid, rng.choice(sides))
            kind = 'tick'
        if kind == 'connect':
            cands = []
            for p in live:
                for nid in p.transport.nodes:
                    if self.can_connect(p.key, nid):
                        cands.append((p.key, nid))
            if cands:
                d, a = rng.choice(cands)
                return ('C', d, a)
            kind = 'tick'
        if kind == 'partition':
            keys = [p.key for p in self.procs.values()]
            if len(keys) >= 2:
                mode = rng.random()
                if mode < 0.4:
                    leaders = [p.key for p in live if p.voter and p.obj._isLeader()]
                    iso = rng.choice(leaders) if leaders else rng.choice(keys)
                    pairs = [sorted((iso, k)) for k in keys if k != iso]
                elif mode < 0.8:
                    rng.shuffle(keys)
                    cut = rng.randrange(1, len(keys))
                    g1, g2 = keys[:cut], keys[cut:]
                    pairs = [sorted((x, y)) for x in g1 for y in g2]
                else:
                    a, b = rng.sample(keys, 2)
                    pairs = [sorted((a, b))]
                return ('P', sorted(pairs))
            kind = 'tick'
        if kind == 'heal':
            if self.blocked:
                return ('H',)
            kind = 'tick'
        if kind == 'compact':
            if live:
                return ('K', rng.choice(live).key)
            kind = 'tick'
        if kind not in ('tick',):
            a = self.gen_ext(kind)
            if a is not None:
                return a
        if not live:
            a = self.gen_ext('restart')
            if a is not None:
                return a
            return ('N',)
        p = rng.choice(live)
        if self.slow is not None and p.key == self.slow and rng.random() < 0.9:
            p = rng.choice(live)
        return ('T', p.key, rng.choices(DTS, DT_W)[0])

    def gen_ext(self, kind):
        rng = self.rng
        if kind == 'ro' and self.ro_keys:
            key = rng.choice(self.ro_keys)
            p = self.procs.get(key)
            if p is None or p.dead:
                return ('RO', 'join', key)
            return ('RO', 'leave', key)
        if kind == 'kill':
            live = [p for p in self.live() if p.voter]
            maxdead = self.cfg.get('max_dead', len(self.members0))
            ndead = sum(1 for p in self.procs.values() if p.voter and p.dead)
            if live and ndead < maxdead:
                p = rng.choice(live)
                if self.cfg.get('kill_points') and rng.random() < 0.7:
                    inner = self.gen_step_for(p)
                    if inner is not None:
                        return ('KP', p.key, rng.choice([0, 0, 1, 1, 2, 3, 4, 6, 9, 14]), inner)
                return ('KILL', p.key)
            return None
        if kind == 'restart':
            dead = [p for p in self.procs.values() if p.dead and p.voter and not getattr(p, 'left', False)]
            if dead:
                if self.cfg.get('kill_points') and rng.random() < 0.15:
                    return ('R', rng.choice(dead).key, rng.choice([0, 1, 2, 3, 5, 8, 12]))
                return ('R', rng.choice(dead).key)
            return None
        return None

    def gen_step_for(self, p):
        """A step that runs code of process p: one of its deliverable messages, or a tick."""
        rng = self.rng
        cands = [(c, d) for (c, d) in self.deliver_candidates() if c.ends[1 - d] is p]
        if cands and rng.random() < 0.6:
            c, d = rng.choice(cands)
            return ('D', c.cid, d)
        return ('T', p.key, rng.choices(DTS, DT_W)[0])

    # -- main loop -------------------------------------------------------------------
    def run(self, actions=None):
        """Run the fault phase (generated or replayed), then the fair quiet phase."""
        self.boot()
        cfg = self.cfg
        if self.bias == 'slowfollower':
            self.slow = self.rng.choice(self.members0)
        try:
            if actions is not None:
                for a in actions:
                    self.one_step(tuple(a) if not isinstance(a, tuple) else a)
            else:
                steps = cfg.get('steps', 5000)
                for _ in range(steps):
                    self.one_step(self.gen_action())
                    if self.stats['deliver'] > self.msg_cap:
                        self.inconclusive = 'message cap'
                        break
                self.slow = None
                if cfg.get('quiet', True) and self.inconclusive is None:
                    self.quiet_phase()
            self.mon.end_of_run()
        except Violation as v:
            self.violations.append(v)
        finally:
            self.teardown()
        return self

    def one_step(self, a):
        self.step += 1
        self.actions.append(a)
        self.trace.append((self.step, round(CLK.now, 4), 'ACT') + tuple(a))
        touched = self.act(a)
        if RAISED:
            raise RAISED[0]
        self.mon.after_step(touched, a)
        if a[0] == 'T' and self.cfg.get('flapxfer') and self.phase == 'fault' and touched is not None and not self.forced:
            self.maybe_flap_transfer(touched)

    def maybe_flap_transfer(self, p):
        """Bias for C09: a snapshot transfer that spans several leader ticks is cut in the middle -
        part of what is queued gets delivered, then both ends notice the drop and the pair reconnects
        at once (before the leader's next tick)."""
        ser = p.serializer
        tr = getattr(ser, '_Serializer__transmissions', None) if ser is not None else None
        if not tr or self.rng.random() >= self.cfg['flapxfer']:
            return
        node = sorted(tr.keys(), key=lambda n: n.id)[0]
        c = p.transport.conns.get(node.id)
        if c is None or not (c.open[0] and c.open[1]):
            return
        side = c.side_of(p)
        k = self.rng.randrange(0, len(c.q[side]) + 1)
        for _ in range(k):
            self.forced.append(('D', c.cid, side))
        first = self.rng.choice([0, 1])
        self.forced.append(('X', c.cid, first))
        self.forced.append(('X', c.cid, 1 - first))
        self.forced.append(('C', c.ends[0].key, c.ends[1].key))
        self.mon.sit['snapshot_transfer_cut_midway'] += 1

    # -- fair regime -----------------------------------------------------------------
    def fair_round(self, dt=0.02):
        """One round of the fair regime: notice every half-dead connection, make
        every permitted connection, deliver everything queued, tick everybody."""
        for c in list(self.conns.values()):
            if c.open[0] != c.open[1]:
                side = 0 if c.open[0] else 1
                # deliver what is still queued towards the open end first (FIN after data)
                while self.deliverable(c, 1 - side):
                    self.one_step(('D', c.cid, 1 - side))
                if c.open[side]:
                    self.one_step(('X', c.cid, side))
            else:
                for s in (0, 1):
                    if c.open[s] and c.ends[1 - s].dead:
                        self.one_step(('X', c.cid, s))
        for p in self.live():
            for nid in list(p.transport.nodes):
                if self.can_connect(p.key, nid):
                    self.one_step(('C', p.key, nid))
        for _ in range(3):
            progressed = False
            for c in list(self.conns.values()):
                for d in (0, 1):
                    n = len(c.q[d])
                    while n > 0 and self.deliverable(c, d):
                        self.one_step(('D', c.cid, d))
                        n -= 1
                        progressed = True
            if not progressed:
                break
        first = True
        for p in self.live():
            self.one_step(('T', p.key, dt if first else 0.0))
            first = False

    def quiet_phase(self):
        self.phase = 'quiet'
        if self.blocked:
            self.one_step(('H',))
        if self.cfg.get('quiet_minority_down') and not self.cfg.get('dynamic'):
            # "a majority of members can exchange messages": a minority of the voters stays down for the whole quiet period
            voters = sorted(k for k, p in self.procs.items() if p.voter)
            kmax = (len(voters) - 1) // 2
            if kmax >= 1:
                down = self.rng.sample(voters, self.rng.randint(1, kmax))
                for k in down:
                    p = self.procs[k]
                    p.down_in_quiet = True
                    if not p.dead:
                        self.one_step(('KILL', k))
                self.mon.sit['quiet_with_minority_down'] += 1
        self.quiet_prepare()
        self.mon.quiet_begin()
        while True:
            self.fair_round()
            st = self.mon.quiet_status()
            if st is not None:
                self.mon.quiet['result'] = st
                break
            if self.stats['deliver'] > self.msg_cap * 2:
                self.inconclusive = 'message cap in quiet phase'
                break
        self.phase = 'done'

    def quiet_prepare(self):
        # faults stop: every killed voter is started again
        for p in list(self.procs.values()):
            if p.dead and p.voter and not getattr(p, 'left', False) and not getattr(p, 'down_in_quiet', False):
                self.one_step(('R', p.key))

    def teardown(self):
        global SIM
        for ch in list(CHILDREN.values()):
            finish_child(ch, False)
        for p in self.all_procs:
            try:
                obj = p.obj
                if obj is None:
                    continue
                pn = getattr(obj, '_SyncObj__pipeNotifier', None)
                if pn is not None:
                    for a in ('_PipeNotifier__pipeR', '_PipeNotifier__pipeW'):
                        try:
                            os.close(getattr(pn, a))
                        except Exception:
                            pass
                if not p.dead:
                    try:
                        p.journal._inner._destroy()
                    except Exception:
                        pass
            except Exception:
                pass
        if self.tmpdir is not None:
            shutil.rmtree(self.tmpdir, ignore_errors=True)
        SIM = None
