"""E2: the real TCP stack (TCPTransport, TcpServer, TcpConnection) of real SyncObj nodes on
simulated sockets under virtual time (C14).

Fault phase: a seeded adversary mixes ticks with connection-level faults - refused
connects, RST, black-holed pairs (bytes and SYNs held until the timeouts fire), flows
dropped for good (both sides alive: half-open on each side), node kill (no FIN) and
restart, slow byte movement.  Healthy phase: every byte moves, every SYN is answered,
every node ticks.  Oracles (DESIGN.md 6/C14):
  (1) re-establishment: after B = connectionRetryTime + connectionTimeout + 1 s of healthy
      network every pair of members is connected on both sides (slow until 3B);
  (2) truthful notifications: a peer reported connected accepts a probe message (send
      returns True) and the probe arrives exactly once - on links of every age;
  (3) attribution: every message handed to SyncObj as coming from node X was sent by X to
      this node, in that order, and X is a member (or a read-only peer) of the receiver.
"""
import os
import json
import random
import collections

from .common import CLK, Violation, RAISED, h32, VERIF_DIR, install_virtual_time, bootstrap
from . import socksim

bootstrap()
import pysyncobj.syncobj as S                     # noqa: E402
from pysyncobj import SyncObj, SyncObjConf, replicated   # noqa: E402
from pysyncobj.transport import TCPTransport      # noqa: E402
from pysyncobj.node import Node, TCPNode          # noqa: E402

SIM = None


class ObsTransport(TCPTransport):
    def send(self, node, message):
        sim = SIM
        me = self._selfNode.address if self._selfNode is not None else 'ro'
        ok = TCPTransport.send(self, node, message)
        if sim is not None and ok:
            sim.sent[(me, node.id)].append(h32(repr(sorted(message.items())) if isinstance(message, dict) else repr(message)))
        return ok

    def _onMessageReceived(self, node, message):
        sim = SIM
        if sim is not None:
            me = self._selfNode.address if self._selfNode is not None else 'ro'
            sim.on_received(self, me, node, message)
        TCPTransport._onMessageReceived(self, node, message)

    def _onNodeConnected(self, node):
        if SIM is not None and self._selfNode is None:
            SIM.events.append((CLK.now, 'ro', 'CONN', node.id))
        elif SIM is not None:
            SIM.events.append((CLK.now, self._selfNode.address, 'CONN', node.id))
            SIM.conn_events[(self._selfNode.address, node.id)].append('C')
            SIM.on_connected(self, node)
        TCPTransport._onNodeConnected(self, node)

    def _onNodeDisconnected(self, node):
        if SIM is not None:
            SIM.events.append((CLK.now, self._selfNode.address if self._selfNode is not None else 'ro', 'DISC', node.id))
            SIM.conn_events[(self._selfNode.address if self._selfNode is not None else 'ro', node.id)].append('D')
            if self._selfNode is None:
                SIM.ro_disc.append((CLK.now, self._syncObj, node.id))
        TCPTransport._onNodeDisconnected(self, node)

    def _onReadonlyNodeConnected(self, node):
        if SIM is not None:
            SIM.events.append((CLK.now, self._selfNode.address, 'RO-CONN', node.id))
        TCPTransport._onReadonlyNodeConnected(self, node)

    def _onReadonlyNodeDisconnected(self, node):
        if SIM is not None:
            SIM.events.append((CLK.now, self._selfNode.address, 'RO-DISC', node.id))
        TCPTransport._onReadonlyNodeDisconnected(self, node)


class Cnt(SyncObj):
    def __init__(self, me, others, conf):
        SyncObj.__init__(self, me, others, conf=conf, transportClass=ObsTransport)
        self.n = 0
        self.log = []

    @replicated
    def inc(self):
        self.n += 1
        return self.n

    @replicated
    def add(self, uid):
        self.log.append(uid)
        return len(self.log)


NEVER_APPLIED = (1, 2, 3, 4, 6)      # QUEUE_FULL, MISSING_LEADER, DISCARDED, NOT_LEADER, REQUEST_DENIED


class Proto(object):
    """Protocol oracles on the real TCP stack (cross-check of C01/C02/C03 outside the message-level model of E1).
    Nodes have file journals here, so kills and restarts keep logs, terms and votes.  Commands carry unique ids:
      C01  the sequence of ids a node has applied is a prefix of (or extends) the longest sequence seen so far,
           and two nodes at the same applied index hold the same sequence;
      C03  at most one leader per term (C07 when a voter restarted in between);
      C02  after the cluster converged: SUCCESS(r) <=> the id sits exactly once at position r of the common
           sequence, an id reported with a reason that excludes execution is absent, no id occurs twice."""

    def __init__(self, sim):
        self.sim = sim
        self.canon = []
        self.at = {}              # applied index -> (len, digest)
        self.leaders = {}         # term -> {addr: incarnation}
        self.subs = {}
        self.uid = 0
        self.checked = collections.Counter()

    def flag(self, prop, kind, msg, **facts):
        sim = self.sim
        v = Violation(prop, kind, msg, engine='E2', **facts)
        if v in RAISED:
            RAISED.remove(v)
        if sim.stop_props is None or prop in sim.stop_props:
            raise v
        sim.other.setdefault((prop, kind), v)

    def submit(self, a):
        sim = self.sim
        obj = sim.objs[a]
        self.uid += 1
        uid = self.uid
        rec = {'uid': uid, 'node': a, 'inc': sim.inc[a], 'cbs': []}
        self.subs[uid] = rec

        def cb(res, err, rec=rec):
            rec['cbs'].append((res, err))
        sim.run_node(a, lambda: obj.add(uid, callback=cb))
        sim.stats['proto_submitted'] += 1

    def observe(self, a):
        sim = self.sim
        obj = sim.objs[a]
        term = obj.raftCurrentTerm
        if obj._isLeader():
            d = self.leaders.setdefault(term, {})
            if a not in d:
                d[a] = sim.inc[a]
                if len(d) > 1:
                    restarted = sim.restarts > 0
                    self.flag('C07' if restarted else 'C03', 'two_leaders_one_term', 'term %d has leaders %s (real TCP stack)' % (term, sorted(d)),
                              term=term)
        log = obj.log
        n = len(log)
        k = min(n, len(self.canon))
        self.checked['prefix_checks'] += 1
        if log[:k] != self.canon[:k]:
            j = next(i for i in range(k) if log[i] != self.canon[i])
            self.flag('C01', 'applied_sequences_diverge', '%s applied id %r as command #%d, another node applied id %r there (real TCP stack)'
                      % (a, log[j], j + 1, self.canon[j]))
        if n > len(self.canon):
            self.canon = list(log)
        ai = obj.raftLastApplied
        cur = (n, h32(tuple(log[-8:])))
        old = self.at.setdefault(ai, cur)
        if old != cur:
            self.flag('C01', 'state_differs_at_same_position', '%s at applied index %d has executed %d commands, another node %d (real TCP stack)'
                      % (a, ai, n, old[0]))

    def final(self, converged):
        sim = self.sim
        if not converged:
            sim.sit['proto_not_converged'] += 1
            return
        final = list(self.canon)
        pos = {}
        for i, uid in enumerate(final):
            if uid in pos:
                self.flag('C02', 'applied_twice', 'id %r was executed as command #%d and #%d (real TCP stack)' % (uid, pos[uid] + 1, i + 1))
            pos[uid] = i
        for uid, rec in self.subs.items():
            if len(rec['cbs']) > 1:
                self.flag('C02', 'callback_twice', 'callback of id %r fired %d times: %r (real TCP stack)' % (uid, len(rec['cbs']), rec['cbs']))
            for (res, err) in rec['cbs']:
                self.checked['callbacks_checked'] += 1
                if err == 0:
                    if uid not in pos:
                        self.flag('C02', 'success_not_committed', 'id %r reported SUCCESS but is not in the common sequence (real TCP stack)' % uid)
                    elif res != pos[uid] + 1:
                        self.flag('C02', 'success_wrong_result', 'id %r SUCCESS result %r, it is command #%d (real TCP stack)' % (uid, res, pos[uid] + 1))
                elif err in NEVER_APPLIED and uid in pos:
                    self.flag('C02', 'failed_but_committed', 'id %r reported fail reason %d but was executed as command #%d (real TCP stack)'
                              % (uid, err, pos[uid] + 1), reason=err)
        sim.sit['proto_final_checked'] += 1


class E2Sim(object):
    def __init__(self, cfg, seed):
        global SIM
        SIM = self
        self.cfg = cfg
        self.rng = random.Random(seed * 7 + 3)
        random.seed(seed)
        del RAISED[:]
        CLK.reset()
        install_virtual_time()
        self.net = socksim.reset_net()
        self.net.poller_flavour = cfg.get('poller', 'poll')
        socksim.install()
        self.addrs = ['10.0.0.%d:4321' % (i + 1) for i in range(cfg['n'])]
        self.objs = {}
        self.dead = set()
        self.inc = collections.Counter()
        self.sent = collections.defaultdict(list)
        self.recv_pos = collections.Counter()
        self.events = collections.deque(maxlen=400)
        self.conn_events = collections.defaultdict(list)
        self.blackhole = set()
        self.stats = collections.Counter()
        self.probes = {}
        self.probe_seen = collections.Counter()
        self.violation = None
        self.sit = collections.Counter()
        self.last_traffic = {}
        self.both_up = set()
        # outsiders (attribution clause: never from a non-member or a removed node).  X never is one of self.addrs:
        # the re-establishment and probe oracles speak about the permanent members only.
        #   stranger : X runs from the start with the members as its partners; no member has ever listed it
        #   removed  : X is a founding member, is removed at run time, and keeps running with its old configuration
        #   ghost    : X is added while it is down, removed again before it ever connected, and only then started
        # another engine may have run in this process before: take the library's own journal and serializer factories
        from . import clustersim as _CS
        S.createJournal = _CS._ORIG_CREATE_JOURNAL
        S.Serializer = _CS._ORIG_SERIALIZER
        self.stop_props = cfg.get('stop_props')
        self.other = {}
        self.restarts = 0
        self.tmpdir = None
        self.proto = Proto(self) if cfg.get('proto') else None
        self.outsider = cfg.get('outsider')
        self.X = '10.0.0.%d:4321' % cfg.get('x_host', 9)
        self.extra = []
        self.x_removed_requested = False
        self.x_added_requested = False
        self.mship_results = []
        self.ro = ['10.0.0.%d:0' % (21 + k) for k in range(cfg.get('n_ro', 0))]      # keys of read-only nodes (they have no address)
        self.ro_disc = []
        self.stable_leader = None
        self.pending_escape = None
        self.throttle = {}
        for a in self.addrs:
            self.start(a)
        for a in self.ro:
            self.start(a)
        if self.outsider in ('stranger', 'removed'):
            self.extra.append(self.X)
            self.start(self.X)

    def conf(self, a=None):
        c = self.cfg
        kw = {}
        if c.get('journal') == 'file' and a is not None:
            if self.tmpdir is None:
                import tempfile
                from .common import scratch_root
                self.tmpdir = tempfile.mkdtemp(prefix='e2-', dir=scratch_root())
            kw['journalFile'] = os.path.join(self.tmpdir, a.replace(':', '_') + '.journal')
            # (journal without dump file: compaction would make a restart impossible - listed finding of C06)
            kw['logCompactionMinEntries'] = 10 ** 9
            kw['logCompactionMinTime'] = 10 ** 9
        return SyncObjConf(autoTick=False, connectionTimeout=c.get('conn_timeout', 3.5), connectionRetryTime=c.get('retry', 5.0),
                           sendBufferSize=c.get('sndbuf', 65536), recvBufferSize=c.get('rcvbuf', 65536),
                           appendEntriesUseBatch=c.get('use_batch', True), leaderFallbackTimeout=30.0,
                           dynamicMembershipChange=self.outsider in ('removed', 'ghost'), **kw)

    def close(self):
        for o in self.objs.values():
            try:
                j = getattr(o, '_SyncObj__raftLog', None)
                if j is not None and hasattr(j, '_destroy'):
                    j._destroy()
            except Exception:
                pass
        if self.tmpdir is not None:
            import shutil
            shutil.rmtree(self.tmpdir, ignore_errors=True)

    def partners_of(self, a):
        if a == self.X:
            return list(self.addrs)
        base = [b for b in self.addrs if b != a]
        if self.outsider == 'removed':
            base.append(self.X)          # founding member; processes (re)start with the original list, as real ones do
        return base

    def start(self, a):
        host = a.split(':')[0]
        self.net.current = host
        socksim.revive_host(host)
        old = self.objs.get(a)
        if old is not None:
            self.restarts += 1
            try:
                j = getattr(old, '_SyncObj__raftLog', None)
                if j is not None and hasattr(j, '_destroy'):
                    j._destroy()          # the dead incarnation's mapping of the journal file
            except Exception:
                pass
        if a in getattr(self, 'ro', ()):
            self.objs[a] = Cnt(None, list(self.addrs), self.conf(None))          # read-only node: no address of its own
        else:
            self.objs[a] = Cnt(a, self.partners_of(a), self.conf(a))
        self.dead.discard(a)
        self.inc[a] += 1

    def everyone(self):
        return self.addrs + self.extra + self.ro

    def members_of(self, obj):
        return set(n.id for n in obj.otherNodes)

    def on_connected(self, transport, node):
        obj = transport._syncObj
        if isinstance(node, TCPNode) and obj is not None and node.id not in self.members_of(obj):
            raise Violation('C14', 'connected_notification_for_non_member', '%s is told that %s connected, which is not one of its members'
                            % (transport._selfNode.address, node.id), outsider=self.outsider)

    def mship(self, what):
        """Ask the current leader (or any live member) to add/remove X; the request may fail or be lost under faults."""
        live = [a for a in self.addrs if a not in self.dead]
        if not live:
            return
        ls = [a for a in live if self.objs[a]._isLeader()]
        a = ls[0] if ls else self.rng.choice(live)
        obj = self.objs[a]
        self.net.current = a.split(':')[0]
        cb = lambda res, err, what=what: self.mship_results.append((what, err))
        if what == 'add':
            self.run_node(a, obj.addNodeToCluster, self.X, cb)
            self.x_added_requested = True
        else:
            self.run_node(a, obj.removeNodeFromCluster, self.X, cb)
            self.x_removed_requested = True
        self.sit['membership_' + what + '_requested'] += 1

    def x_is_member_somewhere(self):
        return [a for a in self.addrs if a not in self.dead and self.X in self.members_of(self.objs[a])]

    def run_node(self, a, fn, *args):
        self.net.current = a.split(':')[0]
        try:
            return fn(*args)
        except Violation:
            raise
        except Exception as e:
            self.stats['escaped_' + type(e).__name__] += 1
            import traceback
            tb = traceback.extract_tb(e.__traceback__)
            loc = [f for f in tb if 'pysyncobj' in f.filename]
            if loc and os.path.basename(loc[-1].filename) in ('transport.py', 'tcp_connection.py', 'tcp_server.py', 'poller.py'):
                # whatever the connection-level fault pattern, the transport stack must not throw out of a tick
                self.pending_escape = Violation('C14', 'exception_escaped', '%s: %s escaped from %s:%s in a tick of %s'
                                                % (type(e).__name__, str(e)[:100], os.path.basename(loc[-1].filename), loc[-1].name, a),
                                                exc=type(e).__name__, where=loc[-1].name)
            return None

    def tick(self, a, dt):
        if a in self.dead:
            return
        CLK.now += dt
        self.run_node(a, self.objs[a].doTick, 0.0)
        if self.proto is not None and a in self.addrs:
            self.proto.observe(a)

    # -- attribution --------------------------------------------------------------------------
    def on_received(self, transport, me, node, message):
        nid = node.id
        obj = transport._syncObj
        if isinstance(message, dict) and message.get('type') == 'verif_probe':
            self.probe_seen[(message['from'], me, message['nonce'])] += 1
            claimed = nid
            if claimed != message['from']:
                raise Violation('C14', 'misattributed', '%s received a probe of %s as coming from %s' % (me, message['from'], claimed))
        if isinstance(node, TCPNode) and transport._selfNode is not None:
            # (members only: a read-only node has no address under which what was sent to it could be booked)
            known = set(n.id for n in obj.otherNodes)
            if nid not in known:
                raise Violation('C14', 'message_from_non_member', '%s was handed a %s message as coming from %s, which is not one of its members'
                                % (me, message.get('type') if isinstance(message, dict) else type(message).__name__, nid), outsider=self.outsider)
            if nid == self.X:
                self.sit['messages_from_X_while_member'] += 1
            dig = h32(repr(sorted(message.items())) if isinstance(message, dict) else repr(message))
            lst = self.sent[(nid, me)]
            k = self.recv_pos[(nid, me)]
            # subsequence: find dig at or after position k
            j = k
            while j < len(lst) and lst[j] != dig:
                j += 1
            if j == len(lst):
                raise Violation('C14', 'message_not_sent_by_claimed_sender',
                                '%s was handed a %r message as coming from %s, which %s never sent to it (or sent earlier: reordered/duplicated)'
                                % (me, message.get('type') if isinstance(message, dict) else type(message).__name__, nid, nid))
            self.recv_pos[(nid, me)] = j + 1
            self.stats['attributed'] += 1

    # -- adversary ------------------------------------------------------------------------------
    def pair_key(self, s):
        if s.peer is not None:
            return frozenset((s.host, s.peer.host))
        if s.target is not None:
            return frozenset((s.host, s.target[0]))
        return None

    def net_step(self, healthy=False):
        rng = self.rng
        for s in socksim.live_socks():
            if s.closed:
                continue      # (what a closed socket still had to deliver lives in NET.dying; the object itself may be gone any time)
            pk = self.pair_key(s)
            held = (not healthy) and pk in self.blackhole
            if s.state == 'connecting':
                if held:
                    continue
                if healthy or rng.random() < 0.7:
                    socksim.complete_connect(s, refuse=(not healthy and rng.random() < self.cfg.get('refuse', 0.1)))
                continue
            if s.peer is None:
                continue
            if held:
                continue
            if s.wire:
                th = self.throttle.get(id(s)) if self.throttle else None
                if th is not None:
                    # a slow link: bytes keep trickling at th['rate'] per (virtual) second
                    k = int((CLK.now - th['last']) * th['rate'])
                    if k >= 1:
                        th['last'] = CLK.now
                        th['moved'] += socksim.move(s, k)
                elif healthy:
                    socksim.move(s)
                else:
                    n = rng.choice([1, 7, 64, None, None])
                    socksim.move(s, n)
        socksim.move_dying(held=() if healthy else self.blackhole, n=None if healthy else rng.choice([1, 64, None]))
        socksim.peer_of_killed_gets_rst()
        socksim.keepalive_step()

    def fault(self):
        rng = self.rng
        c = rng.random()
        est = [s for s in socksim.live_socks() if s.peer is not None and not s.closed and not s.peer.closed]
        if c < 0.25 and est:
            socksim.reset(rng.choice(est))
            self.sit['rst'] += 1
        elif c < 0.45:
            hosts = [a.split(':')[0] for a in self.addrs]
            a, b = rng.sample(hosts, 2)
            self.blackhole.add(frozenset((a, b)))
            self.sit['blackhole'] += 1
        elif c < 0.6 and self.blackhole:
            self.blackhole.pop()
        elif c < 0.75 and est:
            s = rng.choice(est)
            s.flow_dropped = True
            s.peer.flow_dropped = True
            self.sit['flow_dropped_half_open'] += 1
        elif c < 0.88:
            live = [a for a in self.everyone() if a not in self.dead]
            if len([a for a in live if a in self.addrs]) > 1:
                a = rng.choice(live)
                socksim.kill_host(a.split(':')[0])
                self.dead.add(a)
                self.sit['node_killed'] += 1
        else:
            if self.dead:
                a = rng.choice(sorted(self.dead))
                self.start(a)
                self.sit['node_restarted'] += 1

    def run(self):
        rng = self.rng
        cfg = self.cfg
        try:
            steps = cfg.get('steps', 3000)
            t_remove = int(steps * cfg.get('remove_at', 0.4))
            for step in range(steps):
                a = rng.choice(self.everyone())
                self.tick(a, rng.choice([0.001, 0.005, 0.02, 0.1]))
                self.net_step()
                if rng.random() < cfg.get('fault_rate', 0.01):
                    self.fault()
                if self.proto is not None and rng.random() < cfg.get('submit_rate', 0.05):
                    live = [x for x in self.addrs if x not in self.dead]
                    if live:
                        self.proto.submit(rng.choice(live))
                if self.outsider == 'ghost' and step == t_remove // 2:
                    self.mship('add')
                if self.outsider in ('removed', 'ghost') and step >= t_remove and (step - t_remove) % 400 == 0 and self.x_is_member_somewhere():
                    if self.outsider == 'removed' or self.x_added_requested:
                        self.mship('remove')
                if RAISED:
                    raise RAISED[0]
                if self.pending_escape is not None:
                    raise self.pending_escape
            if self.proto is not None:
                self.proto_phase()
            else:
                self.healthy_phase()
        except Violation as v:
            if self.stop_props is not None and v.prop not in self.stop_props:
                self.other.setdefault((v.prop, v.kind), v)       # another property's monitor ended the run
            else:
                self.violation = v
        return self

    def proto_phase(self):
        """Faults stop; every node runs; the cluster has to converge (bounded), then the history is judged."""
        self.blackhole.clear()
        for a in sorted(self.dead):
            self.start(a)
        rng = self.rng

        def converged():
            objs = [self.objs[a] for a in self.addrs]
            if sum(1 for o in objs if o._isLeader()) != 1:
                return False
            ai = set(o.raftLastApplied for o in objs)
            return len(ai) == 1 and all(o.raftCommitIndex == o.raftLastApplied for o in objs) and len(set(len(o.log) for o in objs)) == 1
        ka = 16 + 3 * 5 + 1.0
        bound = 2 * (self.cfg.get('retry', 5.0) + self.cfg.get('conn_timeout', 3.5) + 1.0) + ka + 20.0
        t0 = CLK.now
        stable = None
        ok = False
        finals = 0
        while CLK.now - t0 < bound + 30.0:
            self.settle(0.25)
            if converged():
                if stable is None:
                    stable = CLK.now
                elif CLK.now - stable >= 3.0:
                    if finals < 3:
                        # a command submitted on each node after convergence must get through as well
                        self.proto.submit(self.addrs[finals % len(self.addrs)])
                        finals += 1
                        stable = None
                        continue
                    ok = True
                    break
            else:
                stable = None
        if ok:
            for a in self.addrs:
                self.proto.observe(a)
        self.proto.final(ok)

    def settle(self, seconds, dt=0.01):
        t_end = CLK.now + seconds
        while CLK.now < t_end:
            CLK.now += dt
            for a in self.everyone():
                if a not in self.dead:
                    self.run_node(a, self.objs[a].doTick, 0.0)
                    if self.proto is not None and a in self.addrs:
                        self.proto.observe(a)
            self.net_step(healthy=True)
            self.net_step(healthy=True)
            if self.proto is not None:
                # a healthy network also has bandwidth: one socket buffer per net step would starve a follower that is far
                # behind a leader which re-sends its backlog with every heartbeat
                for _ in range(6):
                    self.net_step(healthy=True)
            if RAISED:
                raise RAISED[0]
            if self.pending_escape is not None:
                raise self.pending_escape
            self.note_pairs()

    def note_pairs(self):
        """Pairs that are connected on both sides at this instant."""
        for a in self.addrs:
            if a in self.dead:
                continue
            oa = self.objs[a]
            for n in oa.otherNodes:
                b = n.id
                if a < b and b not in self.dead and b in self.objs:
                    ob = self.objs[b]
                    if oa.isNodeConnected(n) and any(m.id == a and ob.isNodeConnected(m) for m in ob.otherNodes):
                        self.both_up.add((a, b))

    def all_connected(self):
        bad = []
        for a in self.addrs:
            for n in self.objs[a].otherNodes:
                if not self.objs[a].isNodeConnected(n):
                    bad.append((a, n.id))
        return bad

    def healthy_phase(self):
        cfg = self.cfg
        self.blackhole.clear()
        for a in sorted(self.dead):
            self.start(a)
        B = cfg.get('retry', 5.0) + cfg.get('conn_timeout', 3.5) + 1.0
        # let what the fault phase left behind die (stale connections time out), then watch: every pair must
        # be connected on both sides at some instant of the window (an idle link may be torn down again
        # later - that is the listed idle-link finding, judged by the probes, not here)
        # links that carry traffic (the leader's heartbeats) must come back within the bound even if the old flow
        # died silently: the send path enforces connectionTimeout.  Judged only if one node led all the time.
        t0 = CLK.now
        self.both_up = set()
        lead = None
        stable = True
        t_end = CLK.now + 2 * B
        while CLK.now < t_end:
            self.settle(0.25)
            if CLK.now - t0 > 1.0:
                ls = [a for a in self.addrs if self.objs[a]._isLeader()]
                # (a node that still calls itself leader in a term its peers have left behind is not the leader whose heartbeats
                # keep links alive: the peers ignore what it sends, and its connections time out and are rebuilt in turn)
                if len(ls) == 1 and self.objs[ls[0]].raftCurrentTerm < max(self.objs[a].raftCurrentTerm for a in self.addrs):
                    stable = False
                if len(ls) != 1 or (lead is not None and ls[0] != lead):
                    stable = False
                elif lead is None:
                    lead = ls[0]
        self.stable_leader = lead if stable else None
        if stable and lead is not None:
            self.sit['stable_leader_window'] += 1
            self.probe_round('leader links', only=lead)
            if cfg.get('slow_frame') and not self.outsider:
                self.slow_frame_check()
        ka = 16 + 3 * 5 + 1.0          # default tcp_keepalive=(16, 3, 5): the kernel reports a dead flow after that much silence
        self.settle(max(cfg.get('conn_timeout', 3.5), ka))
        self.both_up = set()
        self.settle(B)
        pairs = [(a, b) for a in self.addrs for b in self.addrs if a < b]
        bad = [p for p in pairs if p not in self.both_up]
        if bad:
            self.sit['slow_reconnect'] += 1
            self.settle(2 * B)
            bad = [p for p in pairs if p not in self.both_up]
            if bad:
                raise Violation('C14', 'not_reestablished', 'during %.1fs of healthy network these pairs were never connected on both sides: %r'
                                % (3 * B, bad[:4]), n=len(bad))
        self.sit['reestablished_after_faults'] += 1
        if self.ro:
            self.readonly_check(B)
        if self.outsider in ('removed', 'ghost'):
            # the network is healthy: the removal goes through on every member; X (running with its old configuration, or
            # started only now) keeps dialling and being dialled by nobody - the monitors on every member watch
            for _ in range(6):
                if not self.x_is_member_somewhere():
                    break
                self.mship('remove')
                self.settle(2.0)
            if not self.x_is_member_somewhere():
                self.sit['X_removed_on_every_member'] += 1
                if self.X not in self.extra:
                    self.extra.append(self.X)
                    self.start(self.X)
                    self.sit['ghost_started_after_removal'] += 1
                elif self.X in self.dead:
                    self.start(self.X)
                self.settle(B)
                self.sit['removed_node_kept_out'] += 1
        elif self.outsider == 'stranger':
            self.sit['stranger_kept_out'] += 1
        # idle for a random time so that links of every age get probed (followers never talk to each other)
        idle = self.rng.choice([0.0, 1.0, cfg.get('conn_timeout', 3.5) + 0.5, 9.0])
        if idle:
            self.settle(idle)
        self.probe_round('first')
        self.settle(1.0)
        bad = self.all_connected()
        if bad:
            self.settle(B)
        self.probe_round('second')

    def slow_frame_check(self):
        """One big frame from a follower to the leader over a slow link: its bytes keep arriving for longer than connectionTimeout
        (what the follower sends after it queues up behind it).  A link on which data arrives all the time is not dead: no side may
        report a disconnect, and the frame arrives, once."""
        cfg = self.cfg
        rng = self.rng
        ct = cfg.get('conn_timeout', 3.5)
        ls = [a for a in self.addrs if self.objs[a]._isLeader()]
        if len(self.addrs) < 3 or len(ls) != 1 or self.bad_terms(ls[0]):
            return
        L = ls[0]
        oL = self.objs[L]
        fol = []
        for a in self.addrs:
            if a == L or a in self.dead:
                continue
            o = self.objs[a]
            nl = [n for n in o.otherNodes if n.id == L]
            nf = [n for n in oL.otherNodes if n.id == a]
            if nl and nf and o.isNodeConnected(nl[0]) and oL.isNodeConnected(nf[0]):
                fol.append((a, nl[0]))
        if not fol:
            return
        F, nL = rng.choice(fol)
        hF, hL = F.split(':')[0], L.split(':')[0]
        socks = [x for x in socksim.live_socks() if not x.closed and x.peer is not None and not x.peer.closed and x.state == 'established'
                 and x.host == hF and x.peer.host == hL]
        if len(socks) != 1:
            return
        sk = socks[0]
        size = rng.choice([20000, 100000, 300000])
        D = ct * rng.choice([1.3, 2.2])
        size = max(4000, min(size, int(cfg.get('sndbuf', 65536) * 100 * D * 0.9)))      # (what the sender's socket buffer lets through in D)
        nonce = len(self.probes) + 1
        self.probes[nonce] = []
        t = self.objs[F]._SyncObj__transport
        e0 = (len(self.conn_events[(L, F)]), len(self.conn_events[(F, L)]))
        self.net.current = hF
        self.throttle[id(sk)] = {'rate': size / D, 'last': CLK.now, 'moved': 0}
        ok = t.send(nL, {'type': 'verif_probe', 'from': F, 'nonce': nonce, 'pad': rng.randbytes(size)})
        if not ok:
            self.throttle.clear()
            raise Violation('C14', 'reported_connected_but_send_fails', '%s reports %s connected, but send() of a %d byte frame returned False'
                            % (F, L, size), idle_longer_than_timeout=False, between_followers=False, big=True)
        t0 = CLK.now
        try:
            th = self.throttle[id(sk)]
            last_moved, last_progress = 0, CLK.now
            # (the sender's socket buffer may be the bottleneck rather than the link: no deadline, bytes just have to keep arriving)
            while CLK.now - last_progress < 1.0 and CLK.now - t0 < 900.0:
                self.settle(0.1)
                if th['moved'] > last_moved:
                    last_moved, last_progress = th['moved'], CLK.now
                d = self.conn_events[(L, F)][e0[0]:] + self.conn_events[(F, L)][e0[1]:]
                if 'D' in d:
                    raise Violation('C14', 'busy_link_declared_dead', 'the link %s -> %s was reported disconnected %.2fs into the transfer of one %d '
                                    'byte frame at %.0f bytes/s (connectionTimeout %.1fs): %d bytes of it had arrived, the last ones less than '
                                    '0.1s before' % (F, L, CLK.now - t0, size, size / D, ct, self.throttle[id(sk)]['moved']),
                                    longer_than_timeout=(CLK.now - t0 > ct - 0.2))
                if self.probe_seen.get((F, L, nonce), 0):
                    break
                if self.bad_terms(L) or not self.objs[L]._isLeader():
                    self.sit['slow_frame_leader_changed'] += 1
                    return
        finally:
            self.throttle.clear()
        k = self.probe_seen.get((F, L, nonce), 0)
        if k != 1:
            raise Violation('C14', 'probe_not_delivered_once', 'a %d byte frame %s -> %s (reported connected, send() True) sent over a slow link '
                            'arrived %d times within %.1fs (%d bytes moved)' % (size, F, L, k, CLK.now - t0, last_moved), times=k, big=True,
                            receiver_idle_longer_than_timeout=False, between_followers=False)
        self.sit['slow_frame_longer_than_timeout_ok'] += 1

    def bad_terms(self, lead):
        return self.objs[lead].raftCurrentTerm < max(self.objs[a].raftCurrentTerm for a in self.addrs if a not in self.dead)

    def readonly_check(self, B):
        """Read-only nodes (no address: the member gives each incoming one an id of its own) after faults, kills and restarts
        of some of them: every live one is connected to every member and stays so, and every member lists exactly them."""
        live = [a for a in self.ro if a not in self.dead]
        t0 = CLK.now
        self.settle(B)
        self.ro_disc = []
        self.settle(B)
        for a in self.addrs:
            n = len(self.objs[a].readonlyNodes)
            if n != len(live):
                raise Violation('C14', 'readonly_nodes_miscounted', '%s lists %d read-only nodes after %.1fs of healthy network, %d are running'
                                % (a, n, CLK.now - t0, len(live)), listed=n, running=len(live))
        for r in live:
            o = self.objs[r]
            missing = [n.id for n in o.otherNodes if n.id in self.addrs and not o.isNodeConnected(n)]
            if missing:
                raise Violation('C14', 'not_reestablished', 'read-only node %s is not connected to %r after %.1fs of healthy network'
                                % (r, missing, CLK.now - t0), n=len(missing), readonly=True)
        # connections that carry traffic - those to a leader that was the only one all the time - must not have been closed
        # (an idle link to a follower may be torn down and rebuilt: that is the listed idle-link finding)
        ls = [a for a in self.addrs if self.objs[a]._isLeader()]
        if len(ls) == 1 and self.stable_leader == ls[0]:
            closed = [d for d in self.ro_disc if d[2] == ls[0]]
            if closed:
                raise Violation('C14', 'healthy_connection_closed', '%d connections of read-only nodes to the leader %s were closed during %.1fs of '
                                'healthy network' % (len(closed), ls[0], B), readonly=True)
            self.sit['readonly_leader_links_stable'] += 1
        self.sit['readonly_nodes_checked'] += 1

    def probe_round(self, tag, only=None):
        nonce = len(self.probes) + 1
        sent = []
        for a in self.addrs:
            obj = self.objs[a]
            t = obj._SyncObj__transport
            for n in sorted(obj.otherNodes, key=lambda x: x.id):
                if only is not None and a != only and n.id != only:
                    continue
                if n.id not in self.objs:
                    continue
                if not obj.isNodeConnected(n):
                    if n.id == self.X:
                        continue
                    if only is not None:
                        raise Violation('C14', 'not_reestablished', 'link %s - %s carries the heartbeats of a leader that was stable for %.1fs of healthy '
                                        'network, yet %s still reports the peer disconnected' % (a, n.id, 2 * (self.cfg.get('retry', 5.0) + self.cfg.get('conn_timeout', 3.5) + 1.0), a),
                                        n=1, leader_link=True)
                    continue
                conn = t._connections.get(n)
                idle = None
                if conn is not None:
                    idle = CLK.now - getattr(conn, '_TcpConnection__lastReadTime', CLK.now) + 0
                self.net.current = a.split(':')[0]
                ok = t.send(n, {'type': 'verif_probe', 'from': a, 'nonce': nonce})
                self.stats['probes'] += 1
                leader = obj._getLeader()
                role_a = 'leader' if obj._isLeader() else 'follower'
                role_b = 'leader' if (leader is not None and leader.id == n.id) else 'follower'
                if not ok:
                    raise Violation('C14', 'reported_connected_but_send_fails',
                                    '%s reports %s connected, but send() returned False (%s probe, link idle for %.1fs, %s -> %s)'
                                    % (a, n.id, tag, idle if idle is not None else -1, role_a, role_b),
                                    idle_longer_than_timeout=(idle is not None and idle > self.cfg.get('conn_timeout', 3.5)),
                                    between_followers=(role_a == 'follower' and role_b == 'follower'))
                ridle = None
                pt = self.objs[n.id]._SyncObj__transport
                for pn, pc in pt._connections.items():
                    if pn.id == a:
                        ridle = CLK.now - getattr(pc, '_TcpConnection__lastReadTime', CLK.now)
                sent.append((a, n.id, nonce, ridle, role_a == 'follower' and role_b == 'follower'))
        self.probes[nonce] = sent
        self.settle(0.5)
        for (a, b, nonce, ridle, idle_link) in sent:
            k = self.probe_seen.get((a, b, nonce), 0)
            if k != 1:
                raise Violation('C14', 'probe_not_delivered_once', 'probe %s -> %s (reported connected, send() True) arrived %d times; '
                                'the receiving side had read nothing on that link for %.1fs' % (a, b, k, ridle if ridle is not None else -1),
                                times=k, receiver_idle_longer_than_timeout=(ridle is not None and ridle + 1.0 > self.cfg.get('conn_timeout', 3.5)),
                                between_followers=idle_link)
        self.sit['probe_round_ok'] += 1


def gen_cfg(seed, i):
    r = random.Random(h32('e2', seed, i))
    return {'n': r.choice([2, 3, 3, 4]), 'steps': r.choice([1500, 3000, 6000]), 'fault_rate': r.choice([0.0, 0.004, 0.01, 0.03]),
            'refuse': r.choice([0.0, 0.1, 0.4]), 'conn_timeout': r.choice([3.5, 3.5, 2.0]), 'retry': r.choice([5.0, 1.0, 0.2]),
            'sndbuf': r.choice([64, 1024, 65536]), 'rcvbuf': r.choice([16, 1024, 65536])}


def gen_cfg_outsider(cfg, seed, i):
    """Every third case has an outsider (own generator: the other parameters of a case do not depend on it)."""
    r = random.Random(h32('e2x', seed, i))
    if random.Random(h32('e2poll', seed, i)).random() < 0.3:
        cfg['poller'] = 'select'          # conf.pollerType='select' (or a platform without poll): errors are not poll events
    if random.Random(h32('e2ro', seed, i)).random() < 0.25:
        cfg['n_ro'] = 2
        # members with journal files here: if every member of a journal-less cluster has been restarted, terms start again at
        # 0 and a read-only node that kept running ignores the new leaders for good (it never campaigns, so its higher term
        # never spreads) - a consequence of losing all persistent state, not of the transport
        cfg['journal'] = 'file'
    cfg['slow_frame'] = random.Random(h32('e2slow', seed, i)).random() < 0.5
    if r.random() < 0.34:
        cfg['outsider'] = r.choice(['stranger', 'removed', 'ghost', 'ghost'])
        cfg['x_host'] = r.choice([0, 9])          # smaller / greater than every member: X is dialled by / dials the members
        cfg['remove_at'] = r.choice([0.2, 0.5, 0.8])
    return cfg


def gen_cfg_proto(seed, i):
    r = random.Random(h32('e2p', seed, i))
    cfg = gen_cfg(seed, i)
    cfg.update({'proto': True, 'journal': 'file', 'n': r.choice([2, 3, 3, 4, 5]), 'steps': r.choice([1500, 3000]),
                'fault_rate': r.choice([0.0, 0.004, 0.01, 0.03]), 'submit_rate': r.choice([0.02, 0.05, 0.15]),
                'use_batch': r.random() < 0.6, 'conn_timeout': r.choice([3.5, 2.0]), 'retry': r.choice([1.0, 0.2, 5.0]),
                'sndbuf': r.choice([1024, 65536]), 'rcvbuf': r.choice([256, 65536])})
    return cfg


def run_proto_case(prop, tier, seed, i):
    """One E2 run with protocol oracles, counted for `prop` (C01, C02 or C03)."""
    rs = (h32('e2ps', prop, seed) % 100000) * 100000 + i
    cfg = gen_cfg_proto(seed, i)
    cfg['stop_props'] = [prop]
    sim = E2Sim(cfg, rs).run()
    try:
        res = {'runs': 1, 'violations': [], 'sit': dict(sim.sit), 'obs': dict(sim.stats), 'escaped': {}, 'inconclusive': None,
               'other_props': {'%s/%s' % k: 1 for k in sim.other}}
        res['sit']['real_tcp_stack_run'] = 1
        res['obs'].update({'e2_' + k: v for k, v in sim.proto.checked.items()})
        res['obs']['e2_commands_in_common_sequence'] = len(sim.proto.canon)
        ok = sim.sit.get('proto_final_checked')
        res['nontrivial_fps'] = [h32('e2p', i, cfg['n'], len(sim.proto.canon) > 0)] if (ok and sim.proto.canon) else []
        if sim.violation is not None:
            rec = sim.violation.record()
            d = os.path.join(VERIF_DIR, 'replays')
            os.makedirs(d, exist_ok=True)
            path = os.path.join(d, '%s-e2-%d-%d.json' % (prop, seed, i))
            with open(path, 'w') as f:
                json.dump({'property': prop, 'engine': 'rv.e2', 'proto': True, 'seed': seed, 'case': i, 'cfg': cfg, 'violation': rec,
                           'events_tail': [list(map(str, e)) for e in list(sim.events)[-80:]]}, f, indent=1, default=str)
            rec['replay'] = path
            res['violations'].append(rec)
        return res
    finally:
        sim.close()


def replay_proto(prop, path):
    with open(path) as f:
        doc = json.load(f)
    res = run_proto_case(prop, 'quick', doc['seed'], doc['case'])
    for v in res['violations']:
        print('replayed: %s/%s %s' % (prop, v['kind'], v['msg']))
        print('REPLAYED ' + json.dumps(v, default=str))
        if v['kind'] == doc['violation']['kind']:
            print('VIOLATION property=%s replay=%s' % (prop, path))
            return 1
    print('not reproduced')
    return 0


def cases(prop, tier, seed):
    return 400 if tier == 'quick' else 8000


def run_case(prop, tier, seed, i):
    rs = (h32('e2s', seed) % 100000) * 100000 + i
    cfg = gen_cfg_outsider(gen_cfg(seed, i), seed, i)
    sim = E2Sim(cfg, rs).run()
    res = {'runs': 1, 'violations': [], 'sit': dict(sim.sit), 'obs': dict(sim.stats), 'escaped': {}, 'inconclusive': None}
    res['obs'].update({'net_' + k: v for k, v in sim.net.stats.items()})
    faults = [k for k in ('rst', 'blackhole', 'flow_dropped_half_open', 'node_killed', 'node_restarted', 'stranger_kept_out',
                          'removed_node_kept_out', 'ghost_started_after_removal') if sim.sit.get(k)]
    res['nontrivial_fps'] = [h32(i, tuple(faults), cfg['n'])] if faults or sim.sit.get('probe_round_ok') else []
    if sim.violation is not None:
        rec = sim.violation.record()
        rec['replay'] = save_replay(seed, i, rec, cfg, sim)
        res['violations'].append(rec)
    if i < 16:
        res['sample'] = {'cfg': cfg, 'faults': {k: sim.sit[k] for k in faults}, 'events_tail': [list(map(str, e)) for e in list(sim.events)[-6:]]}
    return res


def save_replay(seed, i, rec, cfg, sim):
    d = os.path.join(VERIF_DIR, 'replays')
    os.makedirs(d, exist_ok=True)
    path = os.path.join(d, 'C14-%d-%d.json' % (seed, i))
    with open(path, 'w') as f:
        json.dump({'property': 'C14', 'engine': 'rv.e2', 'seed': seed, 'case': i, 'cfg': cfg, 'violation': rec,
                   'events_tail': [list(map(str, e)) for e in list(sim.events)[-80:]]}, f, indent=1, default=str)
    return path


def replay(prop, path):
    with open(path) as f:
        doc = json.load(f)
    res = run_case('C14', 'quick', doc['seed'], doc['case'])
    for v in res['violations']:
        print('replayed: C14/%s %s' % (v['kind'], v['msg']))
        print('REPLAYED ' + json.dumps(v, default=str))
        if v['kind'] == doc['violation']['kind']:
            print('VIOLATION property=C14 replay=%s' % path)
            return 1
    print('not reproduced')
    return 0
