"""Storage fault layer for E1: a kill at the k-th storage primitive of a step.

Primitives are the calls through which pysyncobj.journal and pysyncobj.serializer
change files: mmap stores (record, header offset), .meta tmp open/write/flush/close
and shutil.move, dump tmp open/write/close and the atomic rename, incoming
snapshot file open/write/close/rename.  Semantics = process kill with surviving
page cache: at the kill instant the process's files are copied; when the step has
unwound (code with bare `except:` may keep running as a "zombie": the dead flag
suppresses all its effects) the dead incarnation's file objects are closed and the
copy is restored, so the next incarnation opens exactly the bytes of the kill
instant, whatever the zombie or the garbage collector flushed afterwards.
"""
import os
import glob
import shutil
import builtins

from .common import SimKill, bootstrap

bootstrap()
import pysyncobj.journal as J        # noqa: E402
import pysyncobj.serializer as SER   # noqa: E402

_REAL_OPEN = builtins.open
_REAL_MOVE = shutil.move
_REAL_REPLACE = SER.atomicReplace

ARMED = {'proc': None, 'k': None, 'fired': None, 'count': 0}
IN_CHILD = False     # set in a forked snapshot child: its writes are not kill points of the simulation
_installed = False


def cur_proc():
    from . import clustersim
    return clustersim.CUR


def files_of(p):
    conf = p.conf
    out = []
    for base in (conf.journalFile, conf.fullDumpFile):
        if base:
            out.extend(glob.glob(base + '*'))
    return [f for f in out if '.killsnap' not in f]


def point(kind):
    """Called before and after every storage primitive."""
    if IN_CHILD:
        return
    p = cur_proc()
    if p is None:
        return
    if p.dead:
        raise SimKill()
    p.prim_count = getattr(p, 'prim_count', 0) + 1
    if ARMED['proc'] is p:
        tags = p.sim.cfg.get('kill_tags')
        if tags is not None and kind.split('.')[0] not in tags:
            return          # this run kills only inside the listed kinds of storage operations
        if ARMED['count'] == ARMED['k']:
            ARMED['fired'] = kind
            p.killed_at = kind
            snapshot(p)
            p.dead = True
            ARMED['proc'] = None
            raise SimKill()
        ARMED['count'] += 1


def snapshot(p):
    d = os.path.join(p.sim.scratch(), '.killsnap-%s-%d' % (p.key.replace(':', '_'), p.inc))
    shutil.rmtree(d, ignore_errors=True)
    os.makedirs(d)
    names = []
    for f in files_of(p):
        try:
            shutil.copyfile(f, os.path.join(d, os.path.basename(f)))
            names.append(f)
        except FileNotFoundError:
            pass
    p.killsnap = (d, names)


def arm(p, k):
    install()
    ARMED.update(proc=p, k=k, fired=None, count=0)


def disarm():
    f = ARMED['fired']
    ARMED.update(proc=None, k=None, fired=None, count=0)
    return f


def bury(p):
    """Close the dead incarnation's file objects, then put the files of the kill instant back."""
    try:
        inner = p.journal._inner if p.journal is not None else None
        if inner is not None and hasattr(inner, '_destroy'):
            try:
                inner._destroy()
            except Exception:
                pass
    except Exception:
        pass
    ser = p.serializer
    if ser is not None:
        f = getattr(ser, '_Serializer__incomingTransmissionFile', None)
        if f is not None and hasattr(f, 'close'):
            try:
                f.close()
            except Exception:
                pass
        for t in list(getattr(ser, '_Serializer__transmissions', {}).values()):
            ff = t.get('file') if isinstance(t, dict) else None
            if ff is not None:
                try:
                    ff.close()
                except Exception:
                    pass
    for f in list(getattr(p, 'open_files', [])):
        try:
            f._f.close()
        except Exception:
            pass
    snap = getattr(p, 'killsnap', None)
    if snap is not None:
        d, names = snap
        for f in files_of(p):
            if f not in names:
                try:
                    os.remove(f)
                except OSError:
                    pass
        for f in names:
            shutil.copyfile(os.path.join(d, os.path.basename(f)), f)
        shutil.rmtree(d, ignore_errors=True)
        p.killsnap = None


class _FileShim(object):
    """A file object whose write/flush/close are kill points."""

    def __init__(self, f, tag, p):
        self._f = f
        self._tag = tag
        self._p = p
        if p is not None:
            if not hasattr(p, 'open_files'):
                p.open_files = []
            p.open_files.append(self)

    def write(self, data):
        point(self._tag + '.write.before')
        r = self._f.write(data)
        point(self._tag + '.write.after')
        return r

    def flush(self):
        point(self._tag + '.flush.before')
        r = self._f.flush()
        point(self._tag + '.flush.after')
        return r

    def close(self):
        p = self._p
        if p is not None and p.dead:
            # the process is gone: userspace-buffered bytes die with it
            try:
                fd = self._f.fileno()
                dn = os.open(os.devnull, os.O_WRONLY)
                os.dup2(dn, fd)
                os.close(dn)
            except Exception:
                pass
            try:
                self._f.close()
            except Exception:
                pass
            return None
        point(self._tag + '.close.before')
        r = self._f.close()
        if p is not None and self in getattr(p, 'open_files', []):
            p.open_files.remove(self)
        point(self._tag + '.close.after')
        return r

    def __enter__(self):
        return self

    def __exit__(self, *a):
        self.close()
        return False

    def __getattr__(self, n):
        return getattr(self._f, n)


def _tag_for(path, mode):
    if not isinstance(path, str) or ('w' not in mode and 'a' not in mode):
        return None
    if path.endswith('.meta.tmp'):
        return 'meta'
    if path.endswith('.1.tmp'):
        return 'incoming'
    if path.endswith('.tmp'):
        return 'dump'
    return None


def _open(path, mode='r', *a, **kw):
    tag = _tag_for(path, mode)
    if tag is None:
        if isinstance(path, str) and ('w' in mode or 'a' in mode or '+' in mode):
            # a file written in place (not a tmp file that is renamed later): from now on the oracle looks after every step
            p = cur_proc()
            if p is not None and p.conf is not None and path == p.conf.fullDumpFile:
                p.dump_written_in_place = True
        return _REAL_OPEN(path, mode, *a, **kw)
    point(tag + '.open.before')
    f = _REAL_OPEN(path, mode, *a, **kw)
    sh = _FileShim(f, tag, cur_proc())
    point(tag + '.open.after')
    return sh


class _ShutilShim(object):
    def __getattr__(self, n):
        return getattr(shutil, n)

    def move(self, a, b):
        point('meta.move.before')
        r = _REAL_MOVE(a, b)
        point('meta.move.after')
        return r


CHILD_SUFFIX = '.forkchild'


def _atomic_replace(a, b):
    if IN_CHILD:
        # a snapshot child: its result is parked next to the dump file; the harness moves it over the dump file at the
        # virtual instant at which this child is deemed to finish (see clustersim._ForkOs)
        return _REAL_REPLACE(a, b + CHILD_SUFFIX)
    tag = 'incoming' if a.endswith('.1.tmp') else 'dump'
    point(tag + '.rename.before')
    r = _REAL_REPLACE(a, b)
    touched()
    point(tag + '.rename.after')
    return r


def touched():
    """The dump file of the current process may have changed: the on-disk oracle looks at it after this step.  (It is
    decoded only when something could have changed it - a stat or open per simulator step makes 16 workers queue up
    on the directory locks of the scratch file system.)"""
    p = cur_proc()
    if p is not None:
        p.dump_version = getattr(p, 'dump_version', 1) + 1


_ORIG_RF_WRITE = J.ResizableFile.write


def _rf_write(self, offset, values):
    point('journal.store.before')
    _ORIG_RF_WRITE(self, offset, values)
    point('journal.store.after')


def install():
    global _installed
    if _installed:
        return
    _installed = True
    J.ResizableFile.write = _rf_write
    J.open = _open
    J.shutil = _ShutilShim()
    SER.open = _open
    SER.atomicReplace = _atomic_replace
