"""Writes /verif/MANIFEST.json from the registry (run by hand after changing props.py)."""
import os
import json
import subprocess

from rv.props import PROPS

VERIF = os.path.dirname(os.path.dirname(os.path.abspath(__file__)))

TEXT = {
    'C01': ('Every apply event of every node is compared, at the step it happens, with the canonical sequence read off the committed log and with an '
            'executable reference model; node state digests are compared with the replay of the prefix after every apply, snapshot install and dump load. '
            'Exploration: thousands of adversarial schedules per run of the check, not enumeration. Every 20th case runs real nodes over the real TCP transport code on simulated sockets (E2, file journals, connection faults, kills) with unique command ids instead: applied id sequences must be prefixes of one another, one leader per term, and after convergence SUCCESS(r) <=> the id is command #r of the common sequence.', '6/C01'),
    'C02': ('Every callback invocation is recorded; SUCCESS results are compared with the model result at the committed position, failure reasons that '
            'promise "never applied" are checked against the committed log until the end of the quiet phase; duplicates are flagged when they are committed. Every 20th case runs real nodes over the real TCP transport code on simulated sockets (E2, file journals, connection faults, kills) with unique command ids instead: applied id sequences must be prefixes of one another, one leader per term, and after convergence SUCCESS(r) <=> the id is command #r of the common sequence.', '6/C02'),
    'C03': ('Leaders per term, votes per (voter, term) and leader completeness (against the map of committed positions and the term they were committed in) '
            'are checked after every step of election-heavy schedules. Every 20th case runs real nodes over the real TCP transport code on simulated sockets (E2, file journals, connection faults, kills) with unique command ids instead: applied id sequences must be prefixes of one another, one leader per term, and after convergence SUCCESS(r) <=> the id is command #r of the common sequence.', '6/C03'),
    'C04': ('Majority backing is counted over the voters\' logs at the very step a commit index advances; commit/applied indexes are checked monotone per '
            'step; committed entries are checked immutable, still majority-backed after every truncation / log wipe, and log matching is checked on every journal append.', '6/C04'),
    'C05': ('Bounded-progress restatement of the liveness clause: after the fault phase a fair regime runs until one stable leader, equal applied indexes, '
            'equal digests and fresh commands acknowledged; a progress measure that does not move over a window scaled by log length is "stuck" (violation), '
            'slow progress is inconclusive.', '6/C05'),
    'C06': ('Journaled voters are killed between steps and at the k-th storage primitive inside a step (journal record/header store, .meta tmp/move, '
            'dump tmp/rename, incoming snapshot file), restarted, and the next incarnation is compared with what the dead one had vouched for '
            '(acknowledged entries, leader commit index), its applies and digests with the model, the stored commit index with the values ever set; '
            'C01/C02/C04/C05 oracles run across incarnations.', '6/C06'),
    'C07': ('Vote grants per (voter, term) and the highest acknowledged term per node are tracked across incarnations under election-heavy schedules '
            'with kills right after a vote was granted; a grant for a second candidate, any message sent in an older term, or two leaders in a term '
            'after a restart is a violation. A fifth of the cases use dynamic membership: candidates and voters that joined at run time, journaled nodes restarted with the member list of their first start.', '6/C07'),
    'C09': ('Every snapshot is checked when it is taken (state handed to the serializer = model state at that position, consumers included), every '
            'dump file on disk is decoded after every step and at every restart (never torn, state = model at its index), every install/load is '
            'followed by the C01 digest check; chunk sizes from 1 byte, transfers interrupted by drops and reconnects, kills during the dump write. All serializer modes of the statement: memory, file written inline, file written by a real fork child (the child holds the memory image of the fork instant and replaces the dump file at a drawn later virtual instant, may be killed by a signal or with its parent, or survive it), user-supplied serializer/deserializer functions (synchronous and with a serializeChecker that reports SERIALIZING for a while).', '6/C09'),
    'C10': ('Membership requests (API and admin path, on any node, at any time) are mixed into adversarial schedules with the operator discipline '
            'encoded in the adversary; after every step each node\'s member set is compared with the fold of the membership entries in its log over '
            'its base configuration, leaders are checked for at most one uncommitted change and none before an own-term commit, majorities are '
            'counted over the committing node\'s member set, and at rest all members must report the set the committed log defines; C01-C05 '
            'oracles run unchanged.', '6/C10'),
    'C11': ('Every argument size around k*batch (k=1..4, +-64 bytes, all six batch sizes) is enumerated, plus random sizes and shapes; a monitor '
            'compares the arguments every replica executes with the submitted ones, counts executions per replica and treats any exception escaping a '
            'step as a violation. Random cases submit bursts between two ticks, cut transfers midway and have read-only nodes whose end of the connection goes away just before the leader sends (send() fails with EPIPE inside the loop over the pieces).', '6/C11'),
    'C13': ('Two real TcpConnection objects on simulated sockets; an adversary fragments the stream arbitrarily and rewrites frames in flight; the '
            'delivered sequence is compared with the sent one after every action, invalid frames must end in exactly one disconnect.', '6/C13'),
    'C14': ('The real TCPTransport/TcpServer/TcpConnection of 2-4 real nodes run on simulated sockets under virtual time through refused connects, '
            'RST, black holes, dropped flows (half-open on both sides), kills without FIN and restarts; every delivered message is attributed '
            '(claimed sender really sent it to this node, in order, and is a member), every pair must be connected on both sides within the bound '
            'once the network is healthy, and probes on links of every age check that "connected" means one message gets through exactly once. Every third case has an outsider - a stranger nobody lists, a removed founding member that keeps running, a member added while down and removed before it ever connected - that must never be reported connected nor have a message attributed to it by a node that does not list it. Half of the cases with a stable leader send one big frame from a follower to the leader over a slow link (its bytes trickle in for 1.3-2.2 connectionTimeouts): no side may report a disconnect while data keeps arriving. An exception escaping from the transport stack out of a tick is a violation.', '6/C14'),
    'C16': ('Real ReplLockManager clients (one per node) with their prolongation threads run cooperatively under the common virtual clock; '
            'after every step at most one client may consider a lock its own, late acquisitions must be reported as failed and not kept, '
            'a holder that stops prolonging must be displaceable after the auto-unlock time (bounded-progress script at the end of every run), '
            'and the replicated lock table is compared with a reference written from the property statement (release by a non-holder, expiry). Two cases in three also use the blocking forms (sync=True) with a timeout that expires before the reply; requests delayed on their way are run against the lock table directly (up-to-date replica against a lagging one).', '6/C16'),
    'C17': ('Generated old/new programs with versioned replicated methods on the object and on consumers run in mixed clusters with version '
            'switches, compactions, restarts and replacement of old code; method ids are computed independently from the program description '
            'and every apply event of every node is compared with the triple that id denotes; executed versions are compared with the version '
            'enabled at the log position and at the submitting node; getCodeVersion() is compared with the log; bad setCodeVersion requests must '
            'raise; a node lacking the enabled version must not advance.', '6/C17'),
    'C19': ('Real caller threads against the real auto-tick thread with sys.monitoring yield injection at the hand-over code; unique ids make the '
            'history unambiguous: applied at most once per node, same position everywhere, failed never applied, one callback, sync result = own '
            'command\'s result, no foreign exception. Three-node cases destroy the leader process while calls are in flight or after all were answered.', '6/C19'),
    'C12': ('Commands that raise deterministically (user method and documented battery errors) are mixed into adversarial runs with restarts from '
            'the journal; a re-executed position, a stalled applied index (C05 stuck oracle), diverging digests (C01 oracle, model swallows the same '
            'exception) or a wrong/duplicate callback (C02 oracle) is a violation. A node whose tick raises has not polled its sockets: it receives nothing until a tick completes, so a tick that raises for ever shows as a stalled node.', '6/C12'),
    'C08': ('Model equivalence after every operation plus exhaustive enumeration of kill points (before/after every storage primitive, torn record '
            'stores) of each enumerated operation, reopened and judged by the post-crash oracle; half of the sequences contain records that end exactly at, or one byte around, the end of the file; thorough adds real SIGKILL.', '6/C08'),
    'C15': ('Model-based testing of all public battery methods against the builtin containers, directly, across a serialize/deserialize round trip and '
            'through a replicated cluster with snapshot catch-up.', '6/C15'),
    'C18': ('Read-only nodes join/leave under adversarial schedules; they must never send vote messages nor change role, majorities are counted over voters '
            'only (C04 oracle), they converge in the quiet phase (a read-only node whose ticks raise receives nothing, as on real sockets) and their submissions obey the C02 oracle; the step-down oracle of C20 runs too (read-only nodes answering heartbeats must not keep a cut-off leader in office).', '6/C18'),
    'C20': ('After every tick of a leader the harness compares the time since a majority-completing set of voters was last heard with the fallback '
            'timeout (voters heard during the candidacy count from the start of the leadership, the others from when they really were last heard); SUCCESS for commands submitted while cut off and the hasQuorum flag against ground-truth connections are checked every step. A quarter of the cases change the member set at run time (voters added that never answer, removals, rolled-back removals); the majority is counted over the voters the leader knows.', '6/C20'),
}

TECH = {
    'C01': 'runtime monitor: apply events vs committed-log canon + reference model replay, after every simulator step',
    'C02': 'runtime monitor: callback history vs committed positions and model results',
    'C03': 'runtime monitor: per-term leader sets, vote accounting, leader completeness at election step',
    'C04': 'runtime monitor: majority count at commit step, index monotonicity, immutability, log matching tables',
    'C05': 'bounded-progress monitor in virtual time (stuck detection over a progress measure)',
    'C06': 'runtime monitor over kill/restart executions: vouched-for entries vs reopened journal+dump, model replay per incarnation',
    'C07': 'runtime monitor: vote and term accounting across process incarnations',
    'C09': 'runtime monitor: snapshot/dump-file decoding vs reference model at the snapshot position, after every step',
    'C10': 'runtime monitor: member set vs fold of the log after every step, change gate, agreement at rest, plus C01-C05 monitors',
    'C11': 'runtime monitor over an enumerated size sweep: executed vs submitted arguments, exactly-once count, escaped exceptions',
    'C13': 'history oracle (delivered sequence is a prefix of the sent one) under adversarial fragmentation and targeted corruption',
    'C14': 'runtime monitor on the real TCP stack over simulated sockets: attribution log, re-establishment bound, probe round trips',
    'C16': 'invariant monitor after every step (mutual exclusion over all clients) + bounded-progress script + reference-table comparison',
    'C17': 'runtime monitor with an independently computed method-id table over generated class programs',
    'C19': 'real-thread stress with sys.monitoring yield injection; offline check of the recorded call/apply/callback history',
    'C12': 'runtime monitor: re-execution / stall / divergence detection with raising commands in the workload',
    'C08': 'reference-model monitor + crash-point enumeration by file snapshots at every storage primitive',
    'C15': 'model-based runtime comparison with builtin containers (direct, snapshot round trip, replicated)',
    'C18': 'runtime monitor: message/role bans for observers + voter-only majority count',
    'C20': 'runtime monitor: last-heard bookkeeping vs fallback timeout; hasQuorum vs ground-truth connections',
}

NOT_YET = {}


def main():
    props = [json.loads(l) for l in open(os.path.join(VERIF, 'properties.jsonl'))]
    fixes = subprocess.run(['git', '-C', '/repo', 'log', '--format=%h %s', '9a9972a..HEAD'], stdout=subprocess.PIPE).stdout.decode().splitlines()
    checks = []
    na = []
    for p in props:
        pid = p['id']
        if pid in PROPS and pid in TEXT:
            spec = PROPS[pid]
            checks.append({
                'property_id': pid,
                'quick_cmd': '/venv/bin/python -m rv.check %s --tier quick' % pid,
                'thorough_cmd': '/venv/bin/python -m rv.check %s --tier thorough' % pid,
                'evidence_file': 'evidence/%s.json' % pid,
                'replay_cmd_template': '/venv/bin/python -m rv.check %s --replay {path}' % pid,
                'engine': spec['engine'],
                'level_claimed': {'category': spec['level'], 'text': TEXT[pid][0], 'design_ref': 'DESIGN.md section ' + TEXT[pid][1]},
                'level_note': '; '.join(spec.get('assumptions', [])),
                'technique': TECH[pid],
            })
        else:
            na.append({'property_id': pid, 'reason': NOT_YET.get(pid, 'check not built yet in this round (runtime monitoring applies; see DESIGN.md section 6/%s)' % pid)})
    m = {
        'version': 1,
        'setup_cmd': '/venv/bin/python -m rv.selftest',
        'hooks': {
            'guard': 'PYSYNCOBJ_VERIF',
            'enable': 'no source hooks: the harness wraps public seams (transportClass=, createJournal, Serializer, clock names) from outside; '
                      'the guard variable is set by the workers but read by nothing in /repo',
            'baseline_off_cmd': 'cd /repo && /venv/bin/python -m pytest -ra -q -p no:cacheprovider --timeout=900 --continue-on-collection-errors',
            'source_commits': [],
            'add_only': True,
        },
        'engines': [
            {'name': 'E1 clustersim', 'path': 'rv/clustersim.py', 'serves_properties': ['C01', 'C02', 'C03', 'C04', 'C05', 'C06', 'C07', 'C09', 'C10', 'C12', 'C16', 'C17', 'C18', 'C20'],
             'kind_free_text': 'real SyncObj/journal/serializer per node on a simulated message-level transport under virtual time; monitors after every step'},
            {'name': 'E3 journalfuzz', 'path': 'rv/journalfuzz.py', 'serves_properties': ['C08'],
             'kind_free_text': 'FileJournal vs list model with kill-point enumeration by file snapshots; SIGKILL stress'},
            {'name': 'E1 argsweep', 'path': 'rv/argsweep.py', 'serves_properties': ['C11'],
             'kind_free_text': 'scripted healthy-network E1 runs over an enumerated argument size sweep'},
            {'name': 'E4 framefuzz', 'path': 'rv/framefuzz.py', 'serves_properties': ['C13'],
             'kind_free_text': 'real TcpConnection pair on simulated sockets (rv/socksim.py), adversarial fragmentation and corruption'},
            {'name': 'E2 socksim', 'path': 'rv/e2.py', 'serves_properties': ['C14'],
             'kind_free_text': 'real SyncObj + TCPTransport + TcpServer + TcpConnection on simulated sockets/poller (rv/socksim.py) with connection-level faults'},
            {'name': 'E6 threadstress', 'path': 'rv/threadstress.py', 'serves_properties': ['C19'],
             'kind_free_text': 'real threads, real auto-tick, loopback sockets, sys.monitoring yield injection'},
            {'name': 'E7 vergen', 'path': 'rv/vergen.py', 'serves_properties': ['C17'],
             'kind_free_text': 'generated versioned class programs (source text, exec) on E1'},
            {'name': 'E5 batterymbt', 'path': 'rv/batterymbt.py', 'serves_properties': ['C15'],
             'kind_free_text': 'model-based testing of the batteries, directly and through E1'},
        ],
        'checks': checks,
        'not_applicable': na,
        'notes': 'Genuine defects repaired in /repo (one "fix:" commit each): ' + ' | '.join(fixes) +
                 '. Open findings are listed in known_findings.json. See DESIGN.md.',
    }
    with open(os.path.join(VERIF, 'MANIFEST.json'), 'w') as f:
        json.dump(m, f, indent=1)
    print('wrote MANIFEST.json: %d checks, %d not claimed' % (len(checks), len(na)))


if __name__ == '__main__':
    main()
