"""Entry point of every registered check.

    python -m rv.check C04 --tier quick|thorough [--replay PATH] [--jobs N]

Fans the case space of the property out to worker subprocesses (one per core),
merges what the monitors observed, matches violations against
/verif/known_findings.json, writes /verif/evidence/<id>.json and prints

    VIOLATION property=<id> replay=<path>      (exit 1)   for an unlisted violation
    KNOWN-FINDING: property=<id> <what fails>  (exit 0)   for a listed open finding
    INCONCLUSIVE property=<id> ...             (exit 2)   when the deciding monitors were not reached
"""
import os
import sys
import json
import time
import argparse
import subprocess
import collections

HERE = os.path.dirname(os.path.abspath(__file__))
VERIF = os.path.dirname(HERE)


def load_findings():
    p = os.path.join(VERIF, 'known_findings.json')
    if not os.path.exists(p):
        return []
    with open(p) as f:
        return json.load(f).get('findings', [])


def match_finding(findings, viol):
    """A violation matches an *open* finding if property and kind agree and every
    fact named by the finding has the listed value.  Never by seed or hash."""
    for f in findings:
        if f.get('status') != 'open':
            continue
        if f['property'] != viol['prop']:
            continue
        m = f.get('match', {})
        if m.get('kind') != viol['kind']:
            continue
        ok = True
        for k, v in m.get('facts', {}).items():
            if viol.get('facts', {}).get(k) != v:
                ok = False
                break
        if ok:
            return f
    return None


def replay_witnesses(prop, findings):
    """Re-execute the committed witness of every open finding of this property first, so that
    the KNOWN-FINDING line does not depend on the random exploration meeting the defect again."""
    out = []
    env = dict(os.environ)
    env['PYTHONHASHSEED'] = '0'
    for f in findings:
        if f.get('status') != 'open' or f.get('property') != prop or not f.get('witness'):
            continue
        wp = os.path.join(VERIF, f['witness'])
        try:
            r = subprocess.run([sys.executable, '-m', 'rv.worker', prop, 'replay', wp], cwd=VERIF, env=env,
                               stdout=subprocess.PIPE, stderr=subprocess.PIPE, timeout=600)
            ok = r.returncode == 1
            # engines that print the replayed violation let us confirm that it is this very mechanism
            for line in r.stdout.decode('utf-8', 'replace').splitlines():
                if line.startswith('REPLAYED '):
                    try:
                        rec = json.loads(line[9:])
                        ok = ok and match_finding([f], rec) is not None
                    except Exception:
                        pass
            out.append((f, ok))
        except Exception:
            out.append((f, False))
    return out


def spawn_workers(prop, tier, seed, jobs, extra_env=None):
    env = dict(os.environ)
    env['PYTHONHASHSEED'] = '0'
    env['PYTHONDONTWRITEBYTECODE'] = '1'
    env.setdefault('VERIF_REPO', '/repo')
    if extra_env:
        env.update(extra_env)
    procs = []
    for i in range(jobs):
        cmd = [sys.executable, '-m', 'rv.worker', prop, tier, str(seed), str(i), str(jobs)]
        procs.append(subprocess.Popen(cmd, cwd=VERIF, env=env, stdout=subprocess.PIPE, stderr=subprocess.PIPE))
    return procs


def main(argv=None):
    ap = argparse.ArgumentParser()
    ap.add_argument('prop')
    ap.add_argument('--tier', default=os.environ.get('VERIF_TIER', 'quick'))
    ap.add_argument('--replay')
    ap.add_argument('--jobs', type=int, default=int(os.environ.get('VERIF_JOBS', '0')) or (os.cpu_count() or 4))
    ap.add_argument('--seed', type=int, default=int(os.environ.get('VERIF_SEED', '0') or 0))
    a = ap.parse_args(argv)
    prop = a.prop
    tier = a.tier if a.tier in ('quick', 'thorough') else 'quick'
    sys.path.insert(0, VERIF)
    from rv.props import PROPS
    if prop not in PROPS:
        print('unknown property %s' % prop)
        return 3
    spec = PROPS[prop]

    if a.replay:
        env = dict(os.environ)
        env['PYTHONHASHSEED'] = '0'
        r = subprocess.run([sys.executable, '-m', 'rv.worker', prop, 'replay', a.replay], cwd=VERIF, env=env)
        return r.returncode

    t0 = time.time()
    jobs = max(1, min(a.jobs, spec.get('max_jobs', 64)))
    wall_cap = spec['wall_cap'][tier]
    procs = spawn_workers(prop, tier, a.seed, jobs)
    results = []
    worker_errors = []
    deadline = t0 + wall_cap * 1.6 + 120
    for i, p in enumerate(procs):
        try:
            out, err = p.communicate(timeout=max(5, deadline - time.time()))
        except subprocess.TimeoutExpired:
            p.kill()
            out, err = p.communicate()
            worker_errors.append('worker %d: watchdog' % i)
        got = False
        for line in out.decode('utf-8', 'replace').splitlines():
            if line.startswith('RESULT '):
                try:
                    results.append(json.loads(line[7:]))
                    got = True
                except Exception as e:
                    worker_errors.append('worker %d: bad result line: %s' % (i, e))
        if not got:
            worker_errors.append('worker %d: no result (rc=%s) %s' % (i, p.returncode, err.decode('utf-8', 'replace')[-600:]))

    # merge ---------------------------------------------------------------------------
    evaluations = 0
    nontrivial = set()
    sit = collections.Counter()
    obs = collections.Counter()
    escaped = collections.Counter()
    escaped_case = {}
    other = collections.Counter()
    inconc = collections.Counter()
    samples = []
    viols = []
    not_run = 0
    exhaustive = None
    for r in results:
        evaluations += r.get('runs', 0)
        nontrivial.update(r.get('nontrivial_fps', []))
        sit.update(r.get('sit', {}))
        obs.update(r.get('obs', {}))
        escaped.update(r.get('escaped', {}))
        for sig, ci in r.get('escaped_first_case', {}).items():
            if sig not in escaped_case or ci < escaped_case[sig]:
                escaped_case[sig] = ci
        other.update(r.get('other_props', {}))
        inconc.update(r.get('inconclusive', {}))
        samples.extend(r.get('samples', []))
        viols.extend(r.get('violations', []))
        not_run += r.get('not_run', 0)
        if 'exhaustive' in r:
            exhaustive = r['exhaustive'] if exhaustive is None else (exhaustive and r['exhaustive'])

    findings = load_findings()
    known_seen = collections.OrderedDict()
    known_replays = {}
    new_viols = []
    witness_status = {}
    for f, reproduced in replay_witnesses(prop, findings):
        witness_status[f['key']] = reproduced
        if reproduced:
            known_seen.setdefault(f['key'], (f, {'msg': f.get('what', '')}))
    for v in viols:
        f = match_finding(findings, v)
        if f is not None:
            known_seen.setdefault(f['key'], (f, v))
            if v.get('replay'):
                known_replays.setdefault(f['key'], v['replay'])
        else:
            new_viols.append(v)

    wall = time.time() - t0
    need = spec.get('min_nontrivial', {}).get(tier, 2)
    verdict = 'held'
    if new_viols:
        verdict = 'violated'
    elif worker_errors and not results:
        verdict = 'inconclusive'
    elif len(nontrivial) < need or evaluations == 0:
        verdict = 'inconclusive'

    cov = {
        'evaluations': evaluations,
        'distinct_nontrivial': len(nontrivial),
        'rule': spec['rule'],
        'samples': samples[:6] if samples else [],
        'situations': dict(sit),
        'observed': dict(obs),
        'escaped_exceptions': dict(escaped),
        'escaped_exceptions_first_case': escaped_case,
        'alarms_of_other_properties_monitors': dict(other),
        'inconclusive_runs': dict(inconc),
        'cases_not_run_time_cap': not_run,
        'known_findings_seen': list(known_seen.keys()),
        'known_finding_witness_reproduced': witness_status,
        'known_finding_instances_this_run': known_replays,
        'worker_errors': worker_errors,
        'verdict': verdict,
        'jobs': jobs,
        'repo': os.environ.get('VERIF_REPO', '/repo'),
    }
    if exhaustive is not None:
        cov['exhaustive'] = bool(exhaustive)
    ev = {
        'property_id': prop,
        'tier': tier,
        'seed': a.seed,
        'level': spec['level'],
        'coverage': cov,
        'assumptions': spec.get('assumptions', []),
        'wall_s': round(wall, 2),
        'violations': len(new_viols),
    }
    os.makedirs(os.path.join(VERIF, 'evidence'), exist_ok=True)
    evp = os.path.join(VERIF, 'evidence', prop + '.json')
    with open(evp + '.tmp', 'w') as f:
        json.dump(ev, f, indent=1, sort_keys=True, default=str)
    os.replace(evp + '.tmp', evp)

    print('%s %s: %d cases, %d distinct non-trivial, %.1fs, verdict=%s' % (prop, tier, evaluations, len(nontrivial), wall, verdict))
    top = sorted(sit.items(), key=lambda kv: -kv[1])[:12]
    print('  situations: ' + ', '.join('%s=%d' % kv for kv in top))
    for e in worker_errors[:5]:
        print('  worker error: ' + e.replace('\n', ' | ')[:500])
    for key, (f, v) in known_seen.items():
        print('KNOWN-FINDING: property=%s %s [%s]' % (prop, f.get('what', v['msg']), key))
    for key, ok in witness_status.items():
        if not ok:
            print('  note: committed witness of finding %s no longer reproduces (it suppresses nothing by itself)' % key)
    if new_viols:
        seen = set()
        for v in new_viols:
            k = (v['kind'], json.dumps(v.get('facts', {}), sort_keys=True, default=str))
            if k in seen or len(seen) >= 8:
                continue
            seen.add(k)
            print('  witness: %s/%s %s' % (v['prop'], v['kind'], v['msg'][:300]))
            print('VIOLATION property=%s replay=%s' % (prop, v.get('replay', 'n/a')))
        return 1
    if inconc:
        print('  inconclusive cases: ' + ', '.join('%s=%d' % kv for kv in sorted(inconc.items(), key=lambda kv: -kv[1])[:5]))
    if verdict == 'inconclusive':
        print('INCONCLUSIVE property=%s nontrivial=%d needed=%d errors=%d' % (prop, len(nontrivial), need, len(worker_errors)))
        return 2
    return 0


def main_with_scratch(argv=None):
    """Everything a run puts on disk goes under one directory of its own, removed at the end - also what workers that were
    stopped by the time cap or the watchdog left behind."""
    import shutil
    import tempfile
    base = os.environ.get('VERIF_SCRATCH')
    if not base:
        for b in ('/dev/shm', os.environ.get('TMPDIR') or '/tmp'):
            if os.path.isdir(b) and os.access(b, os.W_OK):
                base = os.path.join(b, 'pysyncobj-verif')
                break
    d = None
    try:
        os.makedirs(base, exist_ok=True)
        d = tempfile.mkdtemp(prefix='run-', dir=base)
        os.environ['VERIF_SCRATCH'] = d
    except Exception:
        d = None
    try:
        return main(argv)
    finally:
        if d is not None:
            shutil.rmtree(d, ignore_errors=True)


if __name__ == '__main__':
    sys.exit(main_with_scratch())
