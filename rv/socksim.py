"""Simulated sockets + poller for the real TcpConnection / TcpServer / TCPTransport code
(engines E2 and E4).  The name `socket` inside pysyncobj.tcp_connection and
pysyncobj.tcp_server is rebound to a shim whose socket() returns FakeSocket, and
pysyncobj.syncobj.createPoller to SimPoller; constants / error classes are the real
ones.  Only physically possible faults: a socket of a live process never changes state
behind its back - bytes are delayed, dropped *in the network*, connections reset by the
peer / the network, processes killed."""
import errno
import types
import weakref
import collections
import socket as real_socket

from .common import CLK, bootstrap

bootstrap()
import pysyncobj.tcp_connection as TC     # noqa: E402
import pysyncobj.tcp_server as TS         # noqa: E402
import pysyncobj.syncobj as S             # noqa: E402
from pysyncobj.poller import Poller, POLL_EVENT_TYPE   # noqa: E402


class Net(object):
    """All sockets of one simulation."""

    def __init__(self):
        self.current = None            # host (ip string) whose code is running
        self.listeners = {}            # (ip, port) -> FakeSocket
        self.socks = weakref.WeakValueDictionary()   # serial -> socket (iteration by serial: deterministic)
        self.serial = 0
        self.next_fd = collections.defaultdict(lambda: 10)
        self.free_fd = collections.defaultdict(list)
        self.dead_hosts = set()
        self.stats = collections.Counter()
        self.max_send = None           # adversary: cap on bytes accepted per send() call (short writes)
        self.max_recv = None           # adversary: cap on bytes returned per recv() call (split reads)
        self.force_eagain = 0          # adversary: the next n send() calls report EAGAIN
        self.dying = []                # flows of closed sockets: remaining data, then FIN

    def alloc_fd(self, host):
        f = self.free_fd[host]
        if f:
            f.sort()
            return f.pop(0)
        self.next_fd[host] += 1
        return self.next_fd[host]


NET = Net()


def reset_net():
    global NET
    NET = Net()
    return NET


class FakeSocket(object):
    def __init__(self, family=None, typ=None, proto=0):
        self.net = NET
        self.host = NET.current
        self.fd = NET.alloc_fd(self.host)
        self.state = 'new'            # new | listening | connecting | established | closed | refused
        self.peer = None
        self.inbuf = bytearray()       # arrived, readable
        self.wire = bytearray()        # sent, still in the network
        self.sndbuf = 65536
        self.err = 0
        self.eof = False               # peer's FIN arrived
        self.fin_sent = False
        self.addr = None
        self.target = None
        self.backlog = collections.deque()
        self.flow_dropped = False      # a middlebox forgot the flow: bytes vanish in both directions
        self.closed = False
        self.keepalive = False
        self.ka_idle, self.ka_intvl, self.ka_cnt = 7200, 75, 9
        self.last_rx = CLK.now
        NET.serial += 1
        self.serial = NET.serial
        NET.socks[self.serial] = self

    # -- the API TcpConnection / TcpServer use ------------------------------------------------
    def setsockopt(self, level, opt, val):
        if level == real_socket.SOL_SOCKET and opt == real_socket.SO_SNDBUF:
            self.sndbuf = max(1, int(val))
        elif level == real_socket.SOL_SOCKET and opt == real_socket.SO_KEEPALIVE:
            self.keepalive = bool(val)
        elif level == real_socket.IPPROTO_TCP and opt == getattr(real_socket, 'TCP_KEEPIDLE', -1):
            self.ka_idle = val
        elif level == real_socket.IPPROTO_TCP and opt == getattr(real_socket, 'TCP_KEEPINTVL', -2):
            self.ka_intvl = val
        elif level == real_socket.IPPROTO_TCP and opt == getattr(real_socket, 'TCP_KEEPCNT', -3):
            self.ka_cnt = val

    def getsockopt(self, level, opt):
        if level == real_socket.SOL_SOCKET and opt == real_socket.SO_ERROR:
            e, self.err = self.err, 0
            return e
        return 0

    def setblocking(self, b):
        pass

    def ioctl(self, *a):
        pass

    def fileno(self):
        return self.fd

    def bind(self, addr):
        if (self.host, int(addr[1])) in self.net.listeners:
            raise OSError(errno.EADDRINUSE, 'in use')
        self.addr = (addr[0], int(addr[1]))

    def listen(self, n):
        self.state = 'listening'
        self.net.listeners[(self.host, self.addr[1])] = self

    def accept(self):
        if not self.backlog:
            raise BlockingIOError(errno.EAGAIN, 'again')
        s = self.backlog.popleft()
        return s, (s.peer.host if s.peer else 'x', 0)

    def connect(self, addr):
        self.state = 'connecting'
        self.target = (addr[0], int(addr[1]))
        self.net.stats['connect_calls'] += 1
        raise BlockingIOError(errno.EINPROGRESS, 'in progress')

    def send(self, data):
        if self.closed:
            raise OSError(errno.EBADF, 'closed')
        if self.err:
            e, self.err = self.err, 0
            raise OSError(e, 'socket error')
        if self.state != 'established':
            raise OSError(errno.ENOTCONN, 'not connected')
        if self.net.force_eagain > 0:
            self.net.force_eagain -= 1
            self.net.stats['eagain'] += 1
            raise BlockingIOError(errno.EAGAIN, 'again')
        room = self.sndbuf - len(self.wire)
        if room <= 0:
            self.net.stats['eagain'] += 1
            raise BlockingIOError(errno.EAGAIN, 'again')
        n = min(room, len(data))
        if self.net.max_send:
            n = min(n, self.net.max_send)
        if n < len(data):
            self.net.stats['short_writes'] += 1
        self.wire += data[:n]
        return n

    def recv(self, n):
        if self.closed:
            raise OSError(errno.EBADF, 'closed')
        if self.err:
            e, self.err = self.err, 0
            raise OSError(e, 'socket error')
        if self.inbuf:
            if self.net.max_recv:
                n = min(n, self.net.max_recv)
            d = bytes(self.inbuf[:n])
            del self.inbuf[:n]
            if len(d) < n or self.inbuf:
                self.net.stats['split_reads'] += 1
            return d
        if self.eof:
            return b''
        raise BlockingIOError(errno.EAGAIN, 'again')

    def close(self):
        if self.closed:
            return
        self.closed = True
        if self.state == 'listening':
            self.net.listeners.pop((self.host, self.addr[1]), None)
        self.state = 'closed'
        self.net.free_fd[self.host].append(self.fd)
        # data already handed to the kernel is still delivered, then FIN.  The socket object may be
        # garbage collected right away, so the network keeps the dying flow.
        p = self.peer
        if p is not None and not self.flow_dropped and not getattr(self, 'killed', False):
            self.net.dying.append({'data': bytearray(self.wire), 'peer': p, 'pair': frozenset((self.host, p.host))})
            self.fin_sent = True
        self.wire = bytearray()

    def __del__(self):
        try:
            self.close()
        except Exception:
            pass


def make_socket_module():
    m = types.ModuleType('fake_socket')
    for k in dir(real_socket):
        if not k.startswith('__'):
            try:
                setattr(m, k, getattr(real_socket, k))
            except Exception:
                pass
    m.socket = FakeSocket
    m.errno = errno
    return m


class SimPoller(Poller):
    """Level triggered.  Two flavours, as the library has two pollers (conf.pollerType): 'poll' reports a socket error as
    an ERROR event (POLLERR/POLLHUP); 'select' never does - its third list is for out-of-band data - so a refused connect or
    a reset shows up as readable/writable only and the error has to be fetched with SO_ERROR or by the failing call."""

    def __init__(self):
        self.subs = {}
        self.host = NET.current
        self.flavour = getattr(NET, 'poller_flavour', 'poll')

    def subscribe(self, descr, callback, eventMask):
        self.subs[descr] = (callback, eventMask)

    def unsubscribe(self, descr):
        self.subs.pop(descr, None)

    def poll(self, timeout):
        byfd = {}
        for s in live_socks():
            if s.host == self.host and not s.closed:
                byfd[s.fd] = s
        for fd, (cb, mask) in sorted(list(self.subs.items())):
            if fd not in self.subs:
                continue
            s = byfd.get(fd)
            if s is None:
                continue
            ev = 0
            if s.state == 'listening':
                if s.backlog and mask & POLL_EVENT_TYPE.READ:
                    ev |= POLL_EVENT_TYPE.READ
            elif s.state == 'connecting':
                continue
            elif s.state == 'refused':
                if self.flavour == 'select':
                    ev |= mask & (POLL_EVENT_TYPE.READ | POLL_EVENT_TYPE.WRITE)
                else:
                    ev |= POLL_EVENT_TYPE.ERROR if mask & POLL_EVENT_TYPE.ERROR else POLL_EVENT_TYPE.WRITE
            else:
                if s.err and mask & POLL_EVENT_TYPE.ERROR and self.flavour != 'select':
                    ev |= POLL_EVENT_TYPE.ERROR
                if (s.inbuf or s.eof or s.err) and mask & POLL_EVENT_TYPE.READ:
                    ev |= POLL_EVENT_TYPE.READ
                if mask & POLL_EVENT_TYPE.WRITE and s.state == 'established' and len(s.wire) < s.sndbuf:
                    ev |= POLL_EVENT_TYPE.WRITE
            if ev:
                cb(fd, ev)


def install():
    fm = make_socket_module()
    TC.socket = fm
    TS.socket = fm
    S.createPoller = lambda t: SimPoller()
    return fm


# -- the network: moving bytes and completing connects ------------------------------------------


def live_socks():
    return [s for _, s in sorted(list(NET.socks.items()))]


def pair(a, b):
    a.peer, b.peer = b, a
    a.state = b.state = 'established'
    a.last_rx = b.last_rx = CLK.now


def complete_connect(s, refuse=False):
    """A connecting socket learns the outcome of its SYN."""
    if s.state != 'connecting' or s.closed:
        return False
    l = NET.listeners.get((s.target[0], s.target[1]))
    if refuse or l is None or l.closed or s.target[0] in NET.dead_hosts:
        s.state = 'refused'
        s.err = errno.ECONNREFUSED
        NET.stats['refused'] += 1
        return True
    cur = NET.current
    NET.current = l.host
    srv = FakeSocket()
    NET.current = cur
    pair(s, srv)
    l.backlog.append(srv)
    NET.stats['established'] += 1
    return True


def move(s, n=None):
    """Move up to n bytes that s sent towards its peer; deliver FIN after the data of a closed socket."""
    p = s.peer
    if p is None:
        return 0
    if s.flow_dropped:
        k = len(s.wire)
        del s.wire[:]
        return 0
    k = len(s.wire) if n is None else min(n, len(s.wire))
    if k:
        if not p.closed and p.host not in NET.dead_hosts:
            p.inbuf += s.wire[:k]
            p.last_rx = CLK.now
        del s.wire[:k]
    if s.closed and not s.wire and not s.fin_sent:
        s.fin_sent = True
        if not p.closed:
            p.eof = True
    return k


def move_dying(held=(), n=None):
    """Deliver what closed sockets had still sent, then their FIN."""
    keep = []
    for d in NET.dying:
        p = d['peer']
        if p.closed or p.host in NET.dead_hosts:
            continue
        if d['pair'] in held:
            keep.append(d)
            continue
        k = len(d['data']) if n is None else min(n, len(d['data']))
        if k:
            p.inbuf += d['data'][:k]
            del d['data'][:k]
        if d['data']:
            keep.append(d)
        else:
            p.eof = True
    NET.dying[:] = keep


def keepalive_step():
    """Kernel TCP keep-alive: an established socket whose flow is dead (dropped in the network, peer
    process killed) gets ETIMEDOUT after keepidle + keepintvl * keepcnt seconds without traffic."""
    for s in live_socks():
        if s.closed or s.state != 'established' or not s.keepalive or s.err:
            continue
        p = s.peer
        dead_flow = s.flow_dropped or p is None or getattr(p, 'killed', False) or p.host in NET.dead_hosts
        if dead_flow and CLK.now - s.last_rx > s.ka_idle + s.ka_intvl * s.ka_cnt:
            s.err = errno.ETIMEDOUT
            NET.stats['keepalive_timeouts'] += 1


def reset(s):
    """RST seen by both ends (e.g. injected by the network)."""
    for x in (s, s.peer):
        if x is not None and not x.closed:
            x.err = errno.ECONNRESET
            del x.wire[:]
    NET.stats['rst'] += 1


def kill_host(host):
    """Process kill: its sockets vanish without FIN reaching anybody at once; peers are left half-open
    until they send (RST) or time out."""
    NET.dead_hosts.add(host)
    for s in live_socks():
        if s.host == host and not s.closed:
            if s.state == 'listening':
                NET.listeners.pop((s.host, s.addr[1]), None)
            s.closed = True
            s.state = 'closed'
            del s.wire[:]
            s.killed = True


def revive_host(host):
    NET.dead_hosts.discard(host)
    NET.next_fd[host] = 10
    NET.free_fd[host] = []


def peer_of_killed_gets_rst():
    """A live socket whose peer process is dead gets RST when it has sent something."""
    for s in live_socks():
        p = s.peer
        if p is not None and getattr(p, 'killed', False) and not s.closed and s.wire and not s.flow_dropped:
            del s.wire[:]
            s.err = errno.ECONNRESET
