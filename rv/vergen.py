"""E7 (C17): generated class programs with versioned replicated methods, run on E1.

A *program* is a set of (owner, method name, version) triples: owner 'obj' is the SyncObj
subclass, 'c0', 'c1' are consumers.  The OLD code holds the triples with version <=
v_old, the NEW code adds triples whose version is higher than every version of the old
code.  Source text is generated and exec'd (the `replicated` decorator inspects the class
body frame).  Every method body records (owner, name, version) and returns it, so the
apply events and the reference model tell which implementation a log entry executed on
every node.

Independent oracle: method ids are computed here from the program description (sorted by
version, owner position, versioned name - the documented scheme), not read from the code
under test.  A committed entry with id k must execute triple table[k] on every node,
whatever code it runs; the version executed must not exceed the version enabled at that
log position and must be the newest one not above the version the submitting node had
enabled when it issued the call.
"""
import random
import pickle as _pickle

from .common import CLK, Violation, h32
from .clustersim import Sim, SimTransport, kv_new, S
from .monitors import Ext, cmd_type, REGULAR, VERSION, FAIL_NAMES

from pysyncobj import SyncObj, SyncObjConf, replicated
from pysyncobj.syncobj import SyncObjConsumer
from pysyncobj.node import TCPNode

NAMES = ('m0', 'm1', 'm2')


class VBase(SyncObj):
    def __init__(self, selfNode, otherNodes, conf, consumers):
        SyncObj.__init__(self, selfNode, otherNodes, conf=conf, consumers=consumers, nodeClass=TCPNode, transportClass=SimTransport)
        self.d = kv_new()

    def _applyCommand(self, command, callback, commandType=None):
        from . import clustersim
        if clustersim.SIM is not None and commandType is not None:
            clustersim.SIM.mon.on_submit_bytes(S._bchr(commandType) + command)
        return SyncObj._applyCommand(self, command, callback, commandType)

    def _rec(self, owner, name, ver, x):
        d = self.d
        d['n'] += 1
        d['h'] = h32(d['h'], owner, name, ver, x)
        d['l'].append((owner, name, ver))
        if len(d['l']) > 6:
            del d['l'][0]
        return (owner, name, ver, d['n'])


class CBase(SyncObjConsumer):
    def __init__(self):
        SyncObjConsumer.__init__(self)
        self.log = [0, 0]

    def __len__(self):
        return self.log[0]

    def _rec(self, owner, name, ver, x):
        self.log[0] += 1
        self.log[1] = h32(self.log[1], owner, name, ver, x)
        return (owner, name, ver, self.log[0])


def gen_program(r):
    owners = ['obj'] + ['c%d' % i for i in range(r.choice([0, 0, 1, 2]))]
    v_old = r.choice([0, 1])
    v_new = v_old + r.choice([1, 2])
    old, added = set(), set()
    for o in owners:
        for n in NAMES:
            if r.random() < 0.7:
                vs = [v for v in range(0, v_old + 1) if r.random() < 0.6]
                for v in vs:
                    old.add((o, n, v))
            if r.random() < 0.6:
                for v in range(v_old + 1, v_new + 1):
                    if r.random() < 0.6:
                        added.add((o, n, v))
    if not any(o == 'obj' for (o, n, v) in old):
        old.add(('obj', 'm0', 0))
    if not added:
        added.add((r.choice(owners), r.choice(NAMES), v_new))
    return {'owners': owners, 'v_old': v_old, 'v_new': max(v for (_, _, v) in added), 'old': sorted(old), 'new': sorted(old | added)}


def method_table(triples, owners):
    """The documented id scheme: sort by (version, owner position, versioned method name)."""
    rows = sorted((v, owners.index(o), '%s_v%d' % (n, v), o, n) for (o, n, v) in triples)
    return [(o, n, v) for (v, oi, vn, o, n) in rows]


def gen_source(triples, owners, tag):
    src = []
    for o in owners:
        cname = ('Obj_' if o == 'obj' else 'Cons_%s_' % o) + tag
        base = 'VBase' if o == 'obj' else 'CBase'
        src.append('class %s(%s):' % (cname, base))
        mine = sorted((n, v) for (oo, n, v) in triples if oo == o)
        if not mine:
            src.append('    pass')
        for (n, v) in mine:
            src.append('    @replicated%s' % ('' if v == 0 else '(ver=%d)' % v))
            src.append('    def %s(self, x):' % n)
            src.append('        return self._rec(%r, %r, %d, x)' % (o, n, v))
        src.append('')
    return '\n'.join(src)


def build_classes(prog):
    out = {}
    for tag, triples in (('old', prog['old']), ('new', prog['new'])):
        ns = {'VBase': VBase, 'CBase': CBase, 'replicated': replicated}
        src = gen_source(triples, prog['owners'], tag)
        exec(compile(src, '<generated %s code>' % tag, 'exec'), ns)
        objcls = ns['Obj_' + tag]
        conscls = [ns['Cons_%s_%s' % (o, tag)] for o in prog['owners'][1:]]
        out[tag] = (objcls, conscls, src)
    return out


class VModel(object):
    def __init__(self, prog):
        self.prog = prog
        self.table = method_table(prog['new'], prog['owners'])
        self.d = kv_new()
        self.cons = [[0, 0] for _ in prog['owners'][1:]]

    def apply_fid(self, fid, args):
        if not (0 <= fid < len(self.table)):
            return ('exc', 'KeyError')
        o, n, v = self.table[fid]
        x = args[0] if args else None
        if o == 'obj':
            d = self.d
            d['n'] += 1
            d['h'] = h32(d['h'], o, n, v, x)
            d['l'].append((o, n, v))
            if len(d['l']) > 6:
                del d['l'][0]
            return ('ret', ('T', (o, n, v, d['n'])))
        c = self.cons[self.prog['owners'].index(o) - 1]
        c[0] += 1
        c[1] = h32(c[1], o, n, v, x)
        return ('ret', ('T', (o, n, v, c[0])))

    def cheap(self):
        return (self.d['n'], self.d['h'], tuple(c[0] for c in self.cons))

    def full(self):
        from .clustersim import canon_value
        return h32(canon_value(self.d), [canon_value({'log': c}) for c in self.cons])


class VersionMonitor(Ext):
    def __init__(self, mon, sim):
        Ext.__init__(self, mon)
        self.prog = sim.prog
        self.table = method_table(self.prog['new'], self.prog['owners'])
        self.checked_upto = 1

    def on_proc_start(self, p):
        p.code = self.sim._starting_code or 'new'

    def available(self, code, owner, name, enabled):
        triples = self.prog[code]
        vs = [v for (o, n, v) in triples if o == owner and n == name and v <= enabled]
        return max(vs) if vs else None

    def after_step(self, p, action):
        mon = self.mon
        # newly committed positions: version executed vs version enabled at that position / at submission
        while self.checked_upto < mon.maxc and (self.checked_upto + 1) in mon.committed:
            self.checked_upto += 1
            pos = self.checked_upto
            cmd = mon.committed[pos][1]
            if cmd_type(cmd) != REGULAR:
                continue
            try:
                dec = _pickle.loads(cmd[1:])
            except Exception:
                continue
            fid = dec[0] if isinstance(dec, tuple) else dec
            if not (0 <= fid < len(self.table)):
                self.mon.flag('C17', 'unknown_method_id', 'committed entry %d carries method id %r, the program defines %d ids' % (pos, fid, len(self.table)))
            o, n, v = self.table[fid]
            enabled = mon.version_at(pos)
            mon.obs['version_checks'] += 1
            if enabled is not None and v > enabled:
                self.mon.flag('C17', 'version_above_enabled', 'entry %d executes %s.%s version %d while version %d is enabled at that position'
                                % (pos, o, n, v, enabled))
            subs = mon.cmd2sub.get(cmd)
            if subs and not subs[0].get('ambiguous') and subs[0].get('enabled_at_submit') is not None:
                sub = subs[0]
                exp = self.available(sub['code'], o, n, sub['enabled_at_submit'])
                if exp is not None and exp != v:
                    self.mon.flag('C17', 'not_newest_enabled_version',
                                    'call of %s.%s submitted on %s (code %s, enabled version %d) was turned into version %d, newest enabled is %d'
                                    % (o, n, sub['key'], sub['code'], sub['enabled_at_submit'], v, exp))
                if v > 0:
                    mon.sit['call_resolved_to_higher_version'] += 1
        if p.dead:
            return
        # getCodeVersion() = version defined by the VERSION entries up to the applied index
        a = p.obj.raftLastApplied
        ev = mon.version_at(a) if a <= mon.maxc else None
        if ev is not None:
            mon.obs['code_version_checks'] += 1
            if p.obj.getCodeVersion() != ev:
                self.mon.flag('C17', 'enabled_version_wrong', '%r (code %s) reports enabled version %d at applied index %d, the log defines %d'
                                % (p, p.code, p.obj.getCodeVersion(), a, ev), after_load=any(e[0] == 'load' for e in p.events))
        # a node that lacks the enabled version must stop right before the VERSION entry
        maxv = max(v for (_, _, v) in self.prog[p.code])
        loaded = max([e[1] for e in p.events if e[0] == 'load' and e[1] is not None] + [getattr(p, 'loaded_idx', 0)])
        p.loaded_idx = loaded
        for pos, want in mon.version_entries():
            if pos > a:
                break
            if True:
                if want > maxv and a > max(pos - 1, loaded):
                    self.mon.flag('C17', 'applied_past_unsupported_version',
                                    '%r runs code with highest version %d but its applied index %d is past the VERSION(%d) entry at %d'
                                    % (p, maxv, a, want, pos))


class VerSim(Sim):
    def __init__(self, cfg, seed):
        cfg = dict(cfg)
        r = random.Random(h32('prog', seed))
        self.prog = cfg.get('prog') or gen_program(r)
        cfg['prog'] = self.prog
        self.classes = build_classes(self.prog)
        self.codes = {}
        Sim.__init__(self, cfg, seed)
        self.vm = VersionMonitor(self.mon, self)
        self.mon.ext.append(self.vm)
        self.mon.model_factory = lambda: VModel(self.prog)
        self.weights['version'] = cfg.get('w_version', 0.15)
        self.weights['replace'] = cfg.get('w_replace', 0.3)
        self.switched = False
        n_old = cfg.get('n_old', 1)
        for i, a in enumerate(self.members0):
            self.codes[a] = 'old' if i < n_old else 'new'
        self._starting_code = None
        # conf.onCodeVersionChanged (rarely used): nothing, a callback that only counts, one that raises, one that issues a
        # replicated call at once (e.g. writes an upgrade marker)
        rv = random.Random(h32('vcb', seed))
        self.vcb = dict((a, rv.choice(['none', 'count', 'raise', 'call', 'call'])) for a in self.members0)
        self.vcb_rng = rv

    def make_conf(self, key):
        kw = Sim.make_conf(self, key)
        how = self.vcb.get(key, 'none')
        if how != 'none':
            def on_version(old, new, key=key, how=how):
                p = self.procs.get(key)
                self.mon.sit['version_callback_' + how] += 1
                if how == 'raise':
                    raise RuntimeError('onCodeVersionChanged callback of the application failed')
                if how == 'call' and p is not None and not p.dead and p.obj is not None:
                    a = self.final_command(p, self.vcb_rng)
                    if a[0] == 'S':
                        self.do_submit(a)
                        self.mon.sit['call_from_version_callback'] += 1
            kw['onCodeVersionChanged'] = on_version
        return kw

    def user_class(self):
        return self.classes[self._starting_code][0]

    def make_consumers(self, for_model=False):
        code = self._starting_code or 'new'
        return [c() for c in self.classes[code][1]]

    def start_proc(self, key, addr, others, inc=0, first_tick=True):
        self._starting_code = self.codes.get(key, 'new')
        p = Sim.start_proc(self, key, addr, others, inc=inc, first_tick=first_tick)
        p.code = self._starting_code
        return p

    # -- workload ------------------------------------------------------------------------
    def gen_submit(self):
        rng = self.rng
        ps = self.live()
        if not ps:
            return None
        p = rng.choice(ps)
        enabled = p.obj.getCodeVersion()
        cands = sorted(set((o, n) for (o, n, v) in self.prog[p.code] if v <= enabled))
        if not cands:
            return None
        o, n = rng.choice(cands)
        target = 'kv' if o == 'obj' else self.prog['owners'].index(o) - 1
        return ('S', p.key, target, n, ('$UID',))

    def final_command(self, p, rng=None):
        enabled = p.obj.getCodeVersion()
        cands = sorted(set((o, n) for (o, n, v) in self.prog[p.code] if v <= enabled))
        if not cands:
            return ('T', p.key, 0.0)
        o, n = cands[0] if rng is None else rng.choice(cands)
        target = 'kv' if o == 'obj' else self.prog['owners'].index(o) - 1
        return ('S', p.key, target, n, ('$UID',))

    def do_submit(self, a):
        p = self.procs.get(a[1])
        before = self.uid
        r = Sim.do_submit(self, a)
        if self.uid > before and p is not None:
            sub = self.subs[100000 + self.uid]
            sub['code'] = p.code
            sub['enabled_at_submit'] = p.obj.getCodeVersion()
        return r

    def gen_ext(self, kind):
        rng = self.rng
        if kind == 'version':
            live = [p for p in self.live() if p.voter]
            if live:
                p = rng.choice(live)
                maxv = max(v for (_, _, v) in self.prog[p.code])
                return ('V', p.key, rng.choice([maxv, maxv, self.prog['v_new'], self.prog['v_new'] + 1, 0, p.obj.getCodeVersion()]))
            return None
        if kind == 'replace':
            olds = [p for p in self.live() if p.voter and p.code == 'old']
            if olds and (self.switched or rng.random() < 0.2):
                return ('VREPL', rng.choice(olds).key)
            return None
        return Sim.gen_ext(self, kind)

    def act_ext(self, a):
        if a[0] == 'V':
            p = self.procs.get(a[1])
            if p is None or p.dead:
                return None
            want = a[2]
            maxv = max(v for (_, _, v) in self.prog[p.code])
            enabled = p.obj.getCodeVersion()
            should_raise = want > maxv or want < enabled
            raised = False
            try:
                with_cb = {}

                def cb(res, err):
                    with_cb['r'] = err
                from .clustersim import EnterProc
                with EnterProc(p):
                    p.obj.setCodeVersion(want, callback=cb)
            except Exception:
                raised = True
            self.mon.obs['set_version_calls'] += 1
            if should_raise and not raised:
                self.mon.flag('C17', 'bad_version_request_accepted', '%r (highest own version %d, enabled %d) accepted setCodeVersion(%d)'
                                % (p, maxv, enabled, want), above_own=(want > maxv))
            if raised and not should_raise:
                self.mon.flag('C17', 'good_version_request_rejected', '%r (highest own version %d, enabled %d) rejected setCodeVersion(%d)'
                                % (p, maxv, enabled, want))
            if not raised and want > enabled:
                self.switched = True
                self.mon.sit['version_switch_requested'] += 1
            if raised:
                self.mon.sit['version_request_rejected'] += 1
            return p
        if a[0] == 'VREPL':
            p = self.procs.get(a[1])
            if p is None or p.dead or p.code != 'old':
                return None
            # the operator replaces the old code by the new one: stop the process, start it with new code
            self.kill_proc(p)
            self.codes[p.key] = 'new'
            self.mon.sit['old_node_replaced_by_new_code'] += 1
            return self.restart_proc(p)
        return Sim.act_ext(self, a)

    def quiet_prepare(self):
        Sim.quiet_prepare(self)
        # nodes that lack the enabled version can only continue with new code
        for p in list(self.procs.values()):
            if not p.dead and p.voter and p.code == 'old' and self.switched:
                self.one_step(('VREPL', p.key))
