"""Runtime-verification machinery for bakwc/PySyncObj (see /verif/DESIGN.md)."""
