"""Debug driver: python -m rv.e1dbg seed0 seed1 [key=val ...]"""
import sys, json, time, random, collections
from .clustersim import Sim
from .common import Violation

def cfg_for(seed, over):
    r = random.Random(seed)
    cfg = dict(n=r.choice([2, 3, 3, 4, 5]), steps=int(over.get('steps', 6000)),
               use_batch=r.random() < 0.5, batch=r.choice([1, 40, 200, 4096, 65536]),
               chunk=r.choice([1, 7, 50, 65536]), compact_min=r.choice([5, 20, 10**9]),
               journal=r.choice(['memory', 'memory', 'file']),
               bias=r.choice(['none', 'ackstarve', 'slowfollower', 'none']),
               fallback=r.choice([0.35, 1.0, 3.0, 30.0]))
    cfg['liveness'] = cfg['batch'] >= 200 and cfg['chunk'] >= 50
    cfg.update(over)
    return cfg

def main():
    a, b = int(sys.argv[1]), int(sys.argv[2])
    over = {}
    for kv in sys.argv[3:]:
        k, v = kv.split('=')
        try: v = json.loads(v)
        except Exception: pass
        over[k] = v
    tot = collections.Counter(); t0 = time.time()
    for seed in range(a, b):
        cfg = cfg_for(seed, over)
        t1 = time.time()
        sim = Sim(cfg, seed).run()
        dt = time.time() - t1
        for v in sim.violations:
            tot[v.prop + '/' + v.kind] += 1
            if over.get('trace'):
                for t in list(sim.trace)[-int(over['trace']):]: print('   ', t)
            print('seed', seed, 'VIOL', v, 'step', sim.step, {k: cfg[k] for k in ('n','batch','chunk','use_batch','bias','journal')})
        if sim.inconclusive: tot['inconclusive:' + sim.inconclusive] += 1
        if not sim.violations and over.get('v'):
            print('seed', seed, 'ok %.2fs' % dt, 'steps', sim.step, dict(sim.stats), dict(sim.mon.sit), 'esc', dict(sim.escaped))
        for k, v in sim.escaped.items(): tot['esc:' + k] += v
    print('summary', dict(tot), '%.1fs' % (time.time() - t0))
main()
