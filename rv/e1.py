"""Glue between the check runner and the E1 cluster simulator: per-property
scenario generators (swarm testing), non-triviality rules, replay files."""
import os
import json
import random

from .common import h32, VERIF_DIR

E1_PROPS = ('C01', 'C02', 'C03', 'C04', 'C05', 'C06', 'C07', 'C09', 'C10', 'C12', 'C16', 'C17', 'C18', 'C20')

# violations of these other monitors count for the property when they occur in its scenarios
ALSO = {
    'C04': ('C10',),                         # (only its runs with dynamic membership have a C10 monitor)
    'C06': ('C01', 'C02', 'C04', 'C05'),     # rebuilt state / acknowledged commands / convergence after restarts
    'C07': (),
    'C09': ('C01', 'C05', 'C10'),            # state after install = prefix; lagging follower converges; member set restored
    'C10': ('C01', 'C02', 'C03', 'C04', 'C05', 'C09'),   # membership changes preserve C01-C04 (and the cluster still converges)
    'C12': ('C01', 'C02', 'C05'),            # no stall, no split
    'C17': ('C01',),
    'C03': ('C10',),                         # (only its runs with dynamic membership have a C10 monitor)
    'C18': ('C02', 'C04', 'C05', 'C10', 'C20'),     # (C10: the member set a read-only node reports, in the runs with dynamic membership)
}

CASES = {
    'C01': {'quick': 3000, 'thorough': 24000},
    'C02': {'quick': 3000, 'thorough': 24000},
    'C03': {'quick': 3000, 'thorough': 24000},
    'C04': {'quick': 3000, 'thorough': 24000},
    'C05': {'quick': 2500, 'thorough': 14000},
    'C06': {'quick': 2000, 'thorough': 16000},
    'C07': {'quick': 2500, 'thorough': 24000},
    'C09': {'quick': 2000, 'thorough': 14000},
    'C10': {'quick': 4000, 'thorough': 20000},
    'C12': {'quick': 2000, 'thorough': 16000},
    'C16': {'quick': 700, 'thorough': 10000},
    'C17': {'quick': 900, 'thorough': 14000},
    'C18': {'quick': 2500, 'thorough': 20000},
    'C20': {'quick': 3000, 'thorough': 24000},
}

DECIDING = {
    'C01': ('leader_change_with_uncommitted_entries', 'snapshot_load', 'commit_with_2plus_ae_in_flight', 'chunked_entry',
            'compaction_on_follower'),
    'C02': ('non_success_callback', 'success_for_forwarded_command', 'forwarded_then_leader_changed'),
    'C03': ('two_simultaneous_candidates', 'late_vote_reply', 'leader_elected_while_minority_lacks_committed',
            'election_in_partitioned_even_cluster'),
    'C04': ('commit_with_2plus_ae_in_flight', 'commit_of_older_term_entry', 'truncation', 'commit_after_follower_shrank'),
    'C05': ('quiet_follower_needs_snapshot', 'quiet_half_received_snapshot', 'quiet_divergent_logs', 'quiet_stale_leader',
            'quiet_queued_commands'),
    'C06': ('kill_inside_trim', 'kill_inside_clear', 'restart_loaded_dump', 'restart_after_kill_inside_journal_op', 'all_voters_dead',
            'kill_at_primitive', 'restart_with_journal'),
    'C07': ('vote_granted_then_killed', 'restart_in_election', 'restarted_voter_votes'),
    'C09': ('snapshot_load', 'snapshot_received_completely', 'snapshot_transfer_restarted', 'snapshot_transfer_cut_midway', 'kill_during_dump_write',
            'snapshot_taken_with_consumers', 'fork_child_outlived_its_tick', 'fork_child_killed_by_signal_parent_alive',
            'fork_child_survived_its_parent', 'fork_child_stopped_by_parent', 'user_async_serializing_observed',
            'user_serializer_snapshot_loaded'),
    'C10': ('request_while_change_uncommitted', 'membership_entry_truncated', 'leader_with_uncommitted_change', 'shrunk_to_one',
            'membership_change_committed', 'removed_node_shut_down'),
    'C12': ('apply_raised', 'raise_on_follower', 'raise_replayed_after_restart'),
    'C16': ('lock_acquired', 'late_acquisition_reply', 'holder_stops_prolonging', 'displaced_after_expiry', 'release_by_non_holder'),
    'C17': ('version_switch_requested', 'old_node_replaced_by_new_code', 'call_resolved_to_higher_version', 'version_request_rejected'),
    'C18': ('ro_join', 'ro_leave', 'ro_submit', 'voters_without_majority_observers_connected'),
    'C20': ('leader_silent_half_timeout', 'leader_stepdown', 'quorum_flag_false', 'leader_cut_off'),
}


def cases(prop, tier, seed):
    return CASES[prop][tier]


def pick(r, items, weights=None):
    return r.choices(items, weights)[0] if weights else r.choice(items)


def gen_cfg(prop, tier, seed, i):
    r = random.Random(h32('e1', prop, seed, i))
    cfg = {}
    cfg['n'] = pick(r, [2, 3, 4, 5], [2, 4, 2, 2])
    cfg['use_batch'] = r.random() < 0.6
    cfg['batch'] = pick(r, [1, 40, 200, 4096, 65536], [0.3, 1.5, 3, 2, 3])
    cfg['chunk'] = pick(r, [1, 7, 50, 65536], [0.5, 1.5, 3, 3])
    cfg['compact_min'] = pick(r, [5, 20, 10 ** 9], [2, 2, 3])
    cfg['journal'] = pick(r, ['memory', 'file'], [3, 1])
    cfg['bias'] = pick(r, ['none', 'ackstarve', 'slowfollower'], [3, 2, 2])
    cfg['fallback'] = pick(r, [0.35, 1.0, 3.0, 30.0])
    cfg['queue'] = pick(r, [0, 3, 100000], [1, 1, 6])
    cfg['wait_leader'] = r.random() < 0.7
    cfg['steps'] = pick(r, [800, 2000, 4000, 7000], [2, 3, 3, 1])
    w = {}
    for k, base in (('drop', 1.5), ('connect', 2.5), ('partition', 0.3), ('heal', 0.5), ('compact', 0.4), ('submit', 6)):
        w[k] = base * pick(r, [0, 0.3, 1, 3], [1, 2, 4, 2])
    if w['submit'] == 0:
        w['submit'] = 2
    cfg['weights'] = w
    if r.random() < 0.3:
        cfg['consumers'] = r.sample(['list', 'dict', 'set', 'counter', 'queue', 'pqueue'], r.randint(1, 3))
    if r.random() < 0.25:
        cfg['big_args'] = [cfg['batch'] - 30 if cfg['batch'] > 40 else 40, cfg['batch'] + 10, 3 * cfg['batch'] + 5]
        cfg['big_args'] = [min(x, 20000) for x in cfg['big_args']]
    cfg['msg_cap'] = 150000
    cfg['epipe'] = 0.25          # chance that a send() towards an end that is gone fails on the spot (EPIPE)
    cfg['kwcalls'] = 0.2         # share of the generated calls whose trailing arguments are passed by keyword
    if prop in ('C01', 'C02', 'C03', 'C04'):
        # read-only nodes attached to some clusters: they forward commands, receive the log, and must never count
        cfg['n_ro'] = pick(random.Random(h32('ro', prop, seed, i)), [0, 0, 0, 1, 2])
    # property specific emphasis ---------------------------------------------------------
    if prop == 'C03':
        w['partition'] = max(w['partition'], 0.6)
        w['heal'] = max(w['heal'], 0.6)
        w['submit'] = min(w['submit'], 2)
        cfg['raft_min'], cfg['raft_max'] = pick(r, [(0.4, 1.4), (0.31, 0.5), (0.4, 0.45)])
        cfg['n'] = pick(r, [2, 3, 4, 5])
        r2 = random.Random(h32('c03dyn', seed, i))
        if r2.random() < 0.1:
            # leader completeness while the member set changes (requests right after elections included)
            cfg['sim'] = 'member'
            cfg['n'] = pick(r2, [3, 4, 4, 5])
            cfg['journal'] = 'memory'
            cfg['n_ro'] = 0
            w['member'] = pick(r2, [1.0, 3.0])
            w['operator'] = pick(r2, [0.5, 1.0])
            cfg['readd_anytime'] = False
            cfg['queue'] = 100000
            cfg.pop('consumers', None)
    if prop == 'C02':
        cfg['queue'] = pick(r, [0, 1, 3, 100000], [2, 2, 2, 4])
    if prop in ('C01', 'C02', 'C04') and cfg.get('sim') is None:
        r2 = random.Random(h32('c02jr', prop, seed, i))
        if r2.random() < 0.1:
            # journaled nodes that are killed (between steps) and restarted: what a callback reported has to stay true
            cfg['journal'] = 'file'
            cfg['compact_min'] = 10 ** 9
            w['compact'] = 0
            w['kill'] = pick(r2, [0.3, 0.8])
            w['restart'] = pick(r2, [1.0, 2.5])
            cfg['votekill'] = pick(r2, [0.0, 0.5])
            cfg['n_ro'] = 0
            cfg['ext'] = ['recovery']
            if prop == 'C02':
                # elections close to each other, voters killed right after they voted: what a restarted voter does in the term it
                # voted in decides whether a callback of that term stays true
                cfg['votekill'] = pick(r2, [0.3, 0.7])
                cfg['raft_min'], cfg['raft_max'] = pick(r2, [(0.4, 1.4), (0.31, 0.5), (0.4, 0.45)])
                w['heal'] = max(w['heal'], 0.6)
            if r2.random() < 0.5:
                # ... with log compaction and snapshot transfers in several pieces (dump files: a journal alone cannot be restarted
                # after a compaction, the listed C06 finding)
                cfg['journal'] = 'file+dump'
                cfg['compact_min'] = pick(r2, [5, 20])
                w['compact'] = pick(r2, [0.4, 1.2])
                cfg['chunk'] = pick(r2, [1, 7, 50, 1000])
                w['partition'] = max(w['partition'], 0.6)
                w['heal'] = max(w['heal'], 0.6)
    if prop == 'C02':
        w['partition'] = max(w['partition'], 0.4)
        w['submit'] = max(w['submit'], 6)
    if prop == 'C04':
        cfg['bias'] = pick(r, ['none', 'ackstarve', 'slowfollower'], [1, 3, 2])
        r2 = random.Random(h32('c04dyn', seed, i))
        if r2.random() < 0.1 and 'kill' not in w:      # (not on top of the journaled kill/restart cases: those need the file journal)
            # "a majority of the voting members" while the member set changes (several requests in quick succession included)
            cfg['sim'] = 'member'
            cfg['n'] = pick(r2, [2, 3, 3, 4])
            cfg['journal'] = 'memory'
            cfg['n_ro'] = 0
            w['member'] = pick(r2, [1.0, 3.0])
            w['operator'] = pick(r2, [0.5, 1.0])
            cfg['readd_anytime'] = False
            cfg['queue'] = 100000
            cfg.pop('consumers', None)
    if prop == 'C05':
        cfg['n_ro'] = pick(r, [0, 0, 1, 2])
        cfg['quiet_minority_down'] = random.Random(h32('qmd', seed, i)).random() < 0.3
        cfg['batch'] = pick(r, [200, 4096, 65536])
        cfg['chunk'] = pick(r, [50, 65536])
        cfg['steps'] = pick(r, [800, 2000, 4000], [2, 3, 2])
    if prop == 'C18':
        cfg['n_ro'] = pick(r, [1, 2, 3])
        cfg['ro_start'] = r.random() < 0.6
        w['ro'] = pick(r, [0.1, 0.4, 1.0])
        w['partition'] = max(w['partition'], 0.4)
        r2 = random.Random(h32('c18dyn', seed, i))
        if r2.random() < 0.15:
            # observers of a cluster whose member set changes: they learn new voters from the log or from a snapshot
            cfg['sim'] = 'member'
            cfg['n'] = pick(r2, [2, 3, 3])
            cfg['journal'] = 'memory'
            cfg['compact_min'] = pick(r2, [5, 20])
            w['compact'] = max(w['compact'], 0.4)
            w['member'] = pick(r2, [0.5, 1.5])
            w['operator'] = pick(r2, [0.5, 1.0])
            cfg['readd_anytime'] = False
            cfg['ro_stale_list'] = True
            # voters are only added here: removals strand lagging members behind peers that were shut down, which is the
            # listed finding of C10 and would be reported by the convergence oracle in these runs too
            cfg['member_ops'] = 'add_only'
            cfg['queue'] = 100000
            cfg['batch'] = pick(r2, [200, 4096, 65536])
            cfg['chunk'] = pick(r2, [50, 65536])
            cfg.pop('consumers', None)
    if prop == 'C20':
        cfg['fallback'] = pick(r, [0.11, 0.35, 1.0, 3.0, 30.0], [2, 3, 3, 2, 1])
        w['partition'] = max(w['partition'], 0.8)
        w['heal'] = max(w['heal'], 0.4)
        cfg['dt_heavy'] = r.random() < 0.3
        # read-only nodes attached to some clusters: they answer the leader's heartbeats but are no voters
        cfg['n_ro'] = pick(random.Random(h32('c20ro', seed, i)), [0, 0, 0, 1, 2])
        r2 = random.Random(h32('c20dyn', seed, i))
        if r2.random() < 0.25:
            # "a majority of the voters it knows": the member set changes at run time (voters added that never answer,
            # voters removed) while links are cut
            cfg['sim'] = 'member'
            cfg['n'] = pick(r2, [2, 2, 3, 4])
            cfg['journal'] = 'memory'
            cfg['compact_min'] = 10 ** 9
            w['compact'] = 0
            w['member'] = pick(r2, [0.5, 1.5])
            w['operator'] = pick(r2, [0.3, 1.0])
            cfg['readd_anytime'] = False
            cfg['queue'] = 100000
            cfg.pop('consumers', None)
            cfg['batch'] = pick(r2, [200, 4096, 65536])
            cfg['chunk'] = 65536
    if prop == 'C06':
        cfg['journal'] = pick(r, ['file', 'file+dump'], [1, 2])
        cfg['kill_points'] = True
        w['kill'] = pick(r, [0.2, 0.5, 1.0])
        w['restart'] = pick(r, [0.6, 1.2, 2.5])
        cfg['bias'] = pick(r, ['none', 'ackstarve', 'slowfollower'], [3, 1, 1])
        cfg['batch'] = pick(r, [200, 4096, 65536])
        cfg['chunk'] = pick(r, [50, 1000, 65536])
        if cfg['journal'] == 'file':
            # journal without dump: compaction makes a restart impossible (listed finding); keep it rare
            if r.random() < 0.9:
                cfg['compact_min'] = 10 ** 9
                w['compact'] = 0
        else:
            cfg['compact_min'] = pick(r, [5, 20, 10 ** 9], [3, 2, 1])
            w['compact'] = max(w['compact'], 0.4)
        cfg['ext'] = ['recovery', 'snapshot']
        cfg.pop('consumers', None)
    if prop == 'C07':
        cfg['journal'] = 'file'
        cfg['compact_min'] = 10 ** 9
        w['compact'] = 0
        w['kill'] = pick(r, [0.3, 0.8])
        w['restart'] = pick(r, [1.0, 3.0])
        w['partition'] = max(w['partition'], 0.5)
        w['heal'] = max(w['heal'], 0.6)
        w['submit'] = min(w['submit'], 2)
        cfg['votekill'] = pick(r, [0.0, 0.3, 0.7])
        cfg['raft_min'], cfg['raft_max'] = pick(r, [(0.4, 1.4), (0.31, 0.5), (0.4, 0.45)])
        cfg['batch'] = pick(r, [200, 4096, 65536])
        cfg['ext'] = ['recovery']
        if random.Random(h32('c07dump', seed, i)).random() < 0.3:
            # journal and dump file together: whatever a snapshot carries must not override the stored term and vote
            cfg['journal'] = 'file+dump'
            cfg['compact_min'] = pick(random.Random(h32('c07dump2', seed, i)), [5, 20])
            w['compact'] = 0.6
            cfg['ext'] = ['recovery', 'snapshot']
        r2 = random.Random(h32('c07dyn', seed, i))
        if r2.random() < 0.2:
            # candidates and voters that joined at run time: journaled nodes restart with the member list they were
            # first started with and rebuild the current one from their journal
            cfg['sim'] = 'member'
            cfg['n'] = pick(r2, [1, 2, 3])
            w['member'] = pick(r2, [0.5, 1.5])
            w['operator'] = pick(r2, [0.5, 1.0])
            cfg['readd_anytime'] = False
            cfg['queue'] = 100000
            cfg['restart_with_first_list'] = True
            cfg.pop('consumers', None)
    if prop == 'C09':
        cfg['journal'] = pick(r, ['memory', 'file+dump', 'dump'], [2, 2, 1])
        cfg['compact_min'] = pick(r, [3, 8, 30])
        w['compact'] = pick(r, [0.4, 1.2, 3.0])
        cfg['chunk'] = pick(r, [1, 7, 50, 1000, 65536], [1, 2, 3, 2, 2])
        cfg['batch'] = pick(r, [40, 200, 4096, 65536], [1, 3, 2, 2])
        w['drop'] = pick(r, [0.5, 1.5, 4.0])
        w['connect'] = max(w['connect'], 2.5)
        cfg['consumers'] = r.sample(['list', 'dict', 'set', 'counter', 'queue', 'pqueue'], r.randint(0, 6))
        if cfg['journal'] == 'file+dump' and r.random() < 0.5:
            cfg['kill_points'] = True
            # "kills during the dump write": inside a step only the dump / incoming-snapshot primitives are kill points here
            # (a kill inside the journal trim is the business - and a listed finding - of C06 and C08)
            cfg['kill_tags'] = ['dump', 'incoming']
            w['kill'] = 0.3
            w['restart'] = 1.0
        cfg['ext'] = ['snapshot']
        if r.random() < 0.25:
            # the member set is part of a snapshot: a quarter of the cases run with dynamic membership
            cfg['sim'] = 'member'
            cfg['journal'] = 'memory'
            cfg.pop('kill_points', None)
            w['kill'] = 0
            w['member'] = pick(r, [0.5, 1.5])
            w['operator'] = 1.0
            cfg['readd_anytime'] = False
            cfg['consumers'] = []
        r3 = random.Random(h32('c09ver', seed, i))
        if r3.random() < 0.12 and cfg.get('sim') is None:
            # the enabled code version is part of a snapshot: some cases run generated classes with versioned methods,
            # version switches and replacement of old code
            cfg['sim'] = 'version'
            cfg['n'] = pick(r3, [2, 3, 3])
            cfg['n_old'] = pick(r3, [0, 1])
            cfg['journal'] = 'file+dump'        # (replacing a node's code is a restart: it has to find its log again)
            cfg['w_version'] = pick(r3, [0.3, 0.6])
            cfg['w_replace'] = 0.3
            cfg['consumers'] = []
            cfg.pop('big_args', None)
            cfg.pop('kill_points', None)
            cfg.pop('kill_tags', None)
            w['kill'] = 0
            w['restart'] = 1.0
        cfg['flapxfer'] = pick(r, [0.0, 0.05, 0.3])
        # a slower machine (more virtual time per clock read): snapshot transfers then span several leader ticks
        cfg['clock_eps'] = pick(r, [2e-5, 2e-4, 1e-3], [3, 2, 2])
        cfg['steps'] = pick(r, [800, 2000, 4000], [2, 3, 2])
        if cfg['journal'] in ('file+dump', 'dump') and cfg.get('sim') != 'version':
            # (user-supplied serializer functions are not handed the enabled code version, so they are not combined with
            # version switches)
            # serializer modes of the statement: inline file write, fork child, user-supplied functions (sync / with checker)
            cfg['ser_mode'] = pick(random.Random(h32('sermode', prop, seed, i)), ['file', 'fork', 'user', 'user_async'], [3, 3, 2, 2])
    if prop == 'C06' and cfg['journal'] == 'file+dump':
        cfg['ser_mode'] = pick(random.Random(h32('sermode', prop, seed, i)), ['file', 'fork', 'user'], [3, 2, 1])
    if prop == 'C10':
        cfg['n'] = pick(r, [1, 2, 3, 4], [1, 2, 3, 2])
        cfg['journal'] = 'memory'
        cfg['compact_min'] = pick(r, [5, 20, 10 ** 9], [1, 1, 2])
        w['member'] = pick(r, [0.3, 0.8, 2.0])
        w['operator'] = pick(r, [0.5, 1.5])
        w['partition'] = w['partition'] * pick(r, [0, 0.5, 1])
        w['submit'] = min(w['submit'], 6)
        cfg['batch'] = pick(r, [200, 4096, 65536])
        cfg['chunk'] = pick(r, [50, 65536])
        cfg['queue'] = 100000
        cfg.pop('consumers', None)
        cfg['sim'] = 'member'
        cfg['ext'] = ['snapshot']
        cfg['readd_anytime'] = False    # literal-discipline re-adds (listed hazard) are not generated, see DESIGN.md
        cfg['wait_leader'] = r.random() < 0.3
        r2 = random.Random(h32('c10jr', seed, i))
        if r2.random() < 0.12:
            # journaled members with dump files that are killed (between steps) and restarted: the member set has to come back
            # from dump + journal, whatever list the process is started with
            cfg['journal'] = 'file+dump'
            cfg['compact_min'] = pick(r2, [5, 20])
            w['compact'] = 0.6
            w['kill'] = pick(r2, [0.2, 0.5])
            w['restart'] = 1.5
            cfg['restart_with_first_list'] = True
    if prop == 'C16':
        cfg['sim'] = 'lock'
        cfg['n'] = pick(r, [2, 3, 3])
        cfg['journal'] = 'memory'
        cfg['compact_min'] = pick(r, [10 ** 9, 20])
        cfg['auto_unlock'] = pick(r, [2.0, 4.0, 8.0])
        cfg['n_locks'] = pick(r, [1, 2])
        # blocking calls (sync=True) whose timeout expires before the reply, in two cases of three
        cfg['sync_calls'] = random.Random(h32('c16sync', seed, i)).random() < 0.67
        cfg['batch'] = 65536
        cfg['chunk'] = 65536
        cfg['queue'] = 100000
        cfg['steps'] = pick(r, [600, 1500, 3000])
        w['submit'] = 0.5
        w['partition'] = w['partition'] * pick(r, [0, 1, 2])
        w['drop'] = w['drop'] * pick(r, [0, 0.5, 1])
        cfg['w_lock'] = pick(r, [2.0, 5.0])
        cfg['w_grant'] = pick(r, [6.0, 15.0])
        cfg.pop('consumers', None)
        cfg.pop('big_args', None)
    if prop == 'C17':
        cfg['sim'] = 'version'
        cfg['n'] = pick(r, [2, 3, 3, 4])
        cfg['n_old'] = pick(r, [0, 1, 1, 2])
        cfg['journal'] = 'file+dump'
        cfg['compact_min'] = pick(r, [5, 20, 10 ** 9])
        w['compact'] = pick(r, [0.2, 0.8])
        w['kill'] = pick(r, [0.0, 0.2])
        w['restart'] = 1.5
        cfg['w_version'] = pick(r, [0.1, 0.3])
        cfg['w_replace'] = pick(r, [0.2, 0.6])
        cfg['batch'] = pick(r, [200, 4096, 65536])
        cfg['chunk'] = pick(r, [50, 65536])
        cfg['queue'] = 100000
        cfg.pop('consumers', None)
        cfg.pop('big_args', None)
    if prop == 'C12':
        cfg['raising'] = True
        cfg['consumers'] = ['list', 'set']
        for k in ('drop', 'partition'):
            w[k] = w[k] * pick(r, [0, 0.3, 1])
        if r.random() < 0.5:
            cfg['journal'] = 'file'
            cfg['compact_min'] = 10 ** 9
            w['compact'] = 0
            w['kill'] = 0.3
            w['restart'] = 1.5
        cfg['batch'] = pick(r, [200, 4096, 65536])
        cfg['chunk'] = pick(r, [50, 65536])
    rx = random.Random(h32('rare', prop, seed, i))
    if rx.random() < 0.2 and cfg.get('sim') in (None, 'member') and prop not in ('C07',):
        # less travelled configuration: compaction by age of the last snapshot (instead of log length), each node in its own
        # time slot (logCompactionSplit), another heartbeat period
        cfg['ae_period'] = pick(rx, [0.1, 0.05])
        if cfg.get('journal') != 'file':       # (a journal without dump file must not compact: listed finding of C06)
            cfg['compact_time'] = pick(rx, [1.5, 6.0])
            cfg['compact_split'] = rx.random() < 0.5
    cfg['liveness'] = cfg['batch'] >= 200 and cfg['chunk'] >= 50 and cfg.get('clock_eps', 2e-5) <= 2e-5
    return cfg


def summarize_cfg(cfg):
    keys = ('n', 'n_ro', 'use_batch', 'batch', 'chunk', 'compact_min', 'journal', 'bias', 'fallback', 'queue', 'steps', 'consumers')
    return {k: cfg[k] for k in keys if k in cfg}


def make_sim(prop, cfg, seed):
    from .clustersim import Sim
    cfg = dict(cfg)
    cfg['stop_props'] = [prop] + list(ALSO.get(prop, ()))
    if cfg.get('sim') == 'member':
        from .membership import MemberSim
        sim = MemberSim(cfg, seed)
    elif cfg.get('sim') == 'version':
        from .vergen import VerSim
        sim = VerSim(cfg, seed)
    elif cfg.get('sim') == 'lock':
        from .locks import LockSim
        sim = LockSim(cfg, seed)
    else:
        sim = Sim(cfg, seed)
    for name in cfg.get('ext', []):
        from . import ext_monitors as X
        cls = {'recovery': X.RecoveryMonitor, 'snapshot': X.SnapshotMonitor, 'args': X.ArgsMonitor}[name]
        sim.mon.ext.append(cls(sim.mon))
    return sim


def result_of(prop, sim, cfg, run_seed, case):
    mon = sim.mon
    sit = dict(mon.sit)
    if mon.obs.get('chunked_entry_msgs'):
        sit['chunked_entry'] = 1
    if mon.obs.get('truncations'):
        sit['truncation'] = mon.obs['truncations']
    if mon.obs.get('leader_stepdowns'):
        sit['leader_stepdown'] = mon.obs['leader_stepdowns']
    dec = [k for k in DECIDING.get(prop, ()) if sit.get(k)]
    fp = h32([(a[0], a[1] if len(a) > 1 and isinstance(a[1], (str, int)) else None) for a in sim.actions[:400]], cfg.get('n'))
    res = {
        'runs': 1,
        'nontrivial_fps': [fp] if dec else [],
        'sit': sit,
        'obs': dict(mon.obs),
        'escaped': dict(sim.escaped),
        'inconclusive': sim.inconclusive,
        'violations': [],
        'other_props': {},
    }
    res['obs']['steps'] = sim.step
    for k in ('kill_at_primitive', 'restart'):
        if sim.stats.get(k):
            sit[{'restart': 'restart_with_journal'}.get(k, k)] = sim.stats[k]
    if mon.obs.get('apply_raised'):
        sit['apply_raised'] = mon.obs['apply_raised']
    dec = [k for k in DECIDING.get(prop, ()) if sit.get(k)]
    res['nontrivial_fps'] = [fp] if dec else []
    res['sit'] = sit
    for v in sim.violations:
        rec = v.record()
        if getattr(sim, 'readd_hazard', False):
            rec['facts'] = dict(rec.get('facts', {}), readded_before_all_applied_removal=True)
        if v.prop == prop or v.prop in ALSO.get(prop, ()):
            if v.prop != prop:
                rec['facts'] = dict(rec.get('facts', {}), via=v.prop)
                rec['kind'] = '%s_%s' % (v.prop, rec['kind'])
                rec['prop'] = prop
            rec['replay'] = save_replay(prop, cfg, run_seed, case, sim, rec)
            res['violations'].append(rec)
        else:
            res['other_props']['%s/%s' % (v.prop, v.kind)] = 1
    for (op, ok) in sim.other_violations:
        res['other_props']['%s/%s' % (op, ok)] = 1
    if case < 16:
        res['sample'] = {'cfg': summarize_cfg(cfg), 'seed': run_seed, 'first_actions': [list(a) for a in sim.actions[:14]],
                         'steps': sim.step, 'situations': dec}
    return res


def run_seed_of(prop, seed, i):
    return (h32('seed', prop, seed) % 100000) * 100000 + i


def run_case(prop, tier, seed, i):
    if prop == 'C16' and i % 5 == 4:
        return lock_direct_case(seed, i)
    cfg = gen_cfg(prop, tier, seed, i)
    rs = run_seed_of(prop, seed, i)
    sim = make_sim(prop, cfg, rs)
    sim.run()
    return result_of(prop, sim, cfg, rs, i)


def save_replay(prop, cfg, run_seed, case, sim, rec):
    d = os.path.join(VERIF_DIR, 'replays')
    os.makedirs(d, exist_ok=True)
    path = os.path.join(d, '%s-%d.json' % (prop, run_seed))
    doc = {'property': prop, 'engine': 'rv.e1', 'cfg': cfg, 'seed': run_seed, 'violation': rec, 'steps': sim.step,
           'actions_tail': [list(a) for a in sim.actions[-120:]],
           'trace_tail': [repr(t) for t in list(sim.trace)[-120:]]}
    with open(path, 'w') as f:
        json.dump(doc, f, indent=1, default=str)
    return path


def replay(prop, path):
    with open(path) as f:
        doc = json.load(f)
    if doc.get('direct'):
        res = lock_direct_case(doc['seed'], doc['case'])
        for v in res['violations']:
            print('REPLAYED ' + json.dumps(v, default=str))
            print('VIOLATION property=%s replay=%s' % (prop, path))
            return 1
        print('not reproduced')
        return 0
    sim = make_sim(prop, doc['cfg'], doc['seed'])
    sim.run()
    want = doc['violation']
    for v in sim.violations:
        print('replayed: %s/%s %s' % (v.prop, v.kind, v.msg))
        if (v.prop == want['prop'] and v.kind == want['kind']) or want['kind'] == '%s_%s' % (v.prop, v.kind):
            rec = v.record()
            if v.prop != want['prop']:
                rec['facts'] = dict(rec.get('facts', {}), via=v.prop)
                rec['kind'] = '%s_%s' % (v.prop, rec['kind'])
                rec['prop'] = want['prop']
            print('REPLAYED ' + json.dumps(rec, default=str))
            for t in list(sim.trace)[-40:]:
                print('   ', t)
            print('VIOLATION property=%s replay=%s' % (prop, path))
            return 1
    print('not reproduced: %s/%s (run ended after %d steps, violations now: %s)'
          % (want['prop'], want['kind'], sim.step, [(v.prop, v.kind) for v in sim.violations]))
    return 0


def lock_direct_case(seed, i):
    from .locks import direct_case, direct_delay_case
    r = random.Random(h32('lockdirect', seed, i))
    res = {'runs': 1, 'violations': [], 'sit': {'lock_table_direct': 1}, 'obs': {}, 'escaped': {}, 'inconclusive': None, 'other_props': {}}
    nops = 0
    for k in range(80):
        msg, n = direct_case(r) if k % 2 == 0 else direct_delay_case(r)
        nops += n
        if msg is not None:
            path = os.path.join(VERIF_DIR, 'replays', 'C16-direct-%d-%d.json' % (seed, i))
            os.makedirs(os.path.dirname(path), exist_ok=True)
            rec = {'prop': 'C16', 'kind': 'lock_table_differs_from_reference' if k % 2 == 0 else 'two_holders_after_delayed_request',
                   'msg': msg, 'facts': {}, 'replay': path}
            with open(path, 'w') as f:
                json.dump({'property': 'C16', 'engine': 'rv.e1', 'direct': True, 'seed': seed, 'case': i, 'violation': rec}, f, indent=1)
            res['violations'].append(rec)
            break
    res['obs']['lock_table_direct_ops'] = nops
    res['nontrivial_fps'] = [h32('lockdirect', i)]
    return res
