"""Oracles evaluated on E1/E2 executions (DESIGN.md section 6).

All checks are evaluated when control is back in the scheduler (step boundary).
A violated oracle raises common.Violation(prop, kind, msg, **facts); the run
stops at the first violation (the witness is the action list so far).
"""
import copy
import collections
import pickle as _pickle

from .common import CLK, Violation, h32

REGULAR, NO_OP, MEMBERSHIP, VERSION = 0, 1, 2, 3
FAIL_NAMES = {0: 'SUCCESS', 1: 'QUEUE_FULL', 2: 'MISSING_LEADER', 3: 'DISCARDED', 4: 'NOT_LEADER', 5: 'LEADER_CHANGED',
              6: 'REQUEST_DENIED'}
NEVER_APPLIED = (1, 2, 3, 4, 6)


def cmd_type(cmd):
    return cmd[0] if isinstance(cmd[0], int) else ord(cmd[:1])


class Model(object):
    """Executable reference: a second, non-replicated instance of the user
    state driven by the canonical command sequence."""

    def __init__(self, sim):
        from .clustersim import kv_new
        self.d = kv_new()
        self.cons = sim.make_consumers(for_model=True)

    def apply(self, sub):
        from .clustersim import kv_apply, canon_value
        try:
            if sub['target'] == 'kv':
                m, a, kw = sub['method'], sub['args'], sub['kwargs']
                if m == 'big':
                    a = (a[0], tuple(a[1:]), canon_value(kw))
                elif kw:
                    # arguments passed by keyword: the reference takes them in the order of the method's parameters
                    from .clustersim import Sim
                    names = Sim.KWFORMS[('kv', m)]
                    a = tuple(a) + tuple(kw[n] for n in names[len(a):])
                r = kv_apply(self.d, m, a)
            else:
                c = self.cons[sub['target']]
                r = getattr(c, sub['method'])(*copy.deepcopy(sub['args']), _doApply=True, **copy.deepcopy(sub['kwargs']))
            return ('ret', canon_value(r))
        except Exception as e:
            return ('exc', type(e).__name__)

    def cheap(self):
        return cheap_digest(self.d, self.cons)

    def full(self):
        return full_digest(self.d, self.cons)


def _clen(c):
    try:
        return len(c)
    except TypeError:
        try:
            return c.get()
        except Exception:
            return 0


def _impl(c):
    """ReplLockManager is a wrapper around the consumer that is actually replicated."""
    if not hasattr(c, '_serialize') and hasattr(c, '_consumer'):
        return c._consumer()
    return c


def cheap_digest(d, cons):
    return (d['n'], d['h'], tuple(_clen(_impl(c)) for c in cons))


def full_digest(d, cons):
    from .clustersim import canon_value
    return h32(canon_value(d), [canon_value(_impl(c)._serialize()) for c in cons])


class Ext(object):
    """Base class of property specific monitors plugged into Monitors.ext."""

    def __init__(self, mon):
        self.mon = mon
        self.sim = mon.sim

    def on_proc_start(self, p): pass
    def on_submit(self, p, sub): pass
    def on_callback(self, p, sub, res, err): pass
    def on_send(self, p, dest, conn, msg): pass
    def on_deliver(self, rcv, snd, conn, msg): pass
    def on_state_change(self, p, old, new): pass
    def on_escaped(self, p, sig, exc): pass
    def on_serialize(self, p, data, id): pass
    def on_load(self, p, data): pass
    def on_chunk_in(self, p, data, done): pass
    def on_kill(self, p): pass
    def on_restart(self, old, new): pass
    def after_step(self, p, action): pass
    def end_of_run(self): pass


class Monitors(object):
    def __init__(self, sim):
        self.sim = sim
        self.cfg = sim.cfg
        self.cur_sub = None
        self.cmd2sub = {}
        self.committed = {}          # pos -> (term, cmd)
        self.maxc = 1
        self.pos_of_uid = {}
        self.model = None
        self.mnext = 2               # next position the model has to consume
        self.mret = {}               # pos -> ('ret'|'exc', value)
        self.mcheap = {1: None}
        self.mfull_cache = {}
        self.model_broken = None
        self.cmd_of = {}             # (idx, term) -> hash(cmd)
        self.prev_of = {}            # (idx, term) -> prev term
        self.votes = {}              # (voter key, term) -> {candidate: voter inc}
        self.leaders = {}            # term -> {key}
        self.ackterm = {}            # key -> (max acknowledged term, inc)
        self.sit = collections.Counter()     # deciding situations
        self.obs = collections.Counter()     # raw counters
        self.kills = 0
        self.volatile_restarts = 0
        self.pending_cb = []
        self.last_ae = {}
        self.min_prev = {}
        self.quiet = None
        self.cut_since = {}
        self.ext = []
        self.failed_pos = {}
        self.commit_values = {}
        self.last_voter = None
        self.fid_info = {}
        self.anon = 0
        self._ver_scanned = 1
        self._ver_entries = []
        self.last_snapshot_conn = None

    def flag(self, prop, kind, msg, **facts):
        """A monitor saw a violation.  It ends the run if it belongs to the property being checked (or one
        whose violations count for it); otherwise it is recorded once and the run goes on, so that the
        consequences for the property being checked can still be observed in the same run."""
        from .common import RAISED
        if prop == 'C07' and self.volatile_restarts:
            # C07 speaks about journaled nodes: a voter without a journal file that was started again (a fresh process
            # under an old address) has legitimately forgotten its term and its vote - no claim is made about such runs
            self.obs['c07_not_applicable_volatile_restart'] += 1
            return None
        v = Violation(prop, kind, msg, **facts)
        stop = self.sim.stop_props
        if stop is None or prop in stop:
            raise v
        if v in RAISED:
            RAISED.remove(v)
        key = (prop, kind)
        if key not in self.sim.other_violations:
            self.sim.other_violations[key] = v
        return None

    # -- hooks used while building a process ------------------------------------------
    def conf_hooks(self, p, kw):
        def on_state(old, new, p=p):
            self.on_state_change(p, old, new)
        kw['onStateChanged'] = on_state

    def on_proc_start(self, p):
        obj = p.obj
        if p.inc > 0 and p.voter and not p.conf.journalFile:
            self.volatile_restarts += 1
        if self.model is None:
            self.model = self.new_model()
            self.mcheap[1] = self.model.cheap()
        for fid, meth in list(obj._idToMethod.items()):
            if fid not in self.fid_info:
                owner = getattr(meth, '__self__', None)
                name = getattr(meth, '__name__', '')
                base = name.rsplit('_v', 1)[0] if '_v' in name else name
                if owner is obj:
                    self.fid_info[fid] = ('kv', base)
                else:
                    for ci, c in enumerate(p.consumers):
                        if _impl(c) is owner:
                            self.fid_info[fid] = (ci, base)
            obj._idToMethod[fid] = self._wrap_apply(p, fid, meth)
        p.last_commit = obj.raftCommitIndex
        p.last_applied = obj.raftLastApplied
        p.was_leader = False
        for e in self.ext:
            e.on_proc_start(p)

    def _wrap_apply(self, p, fid, meth):
        from .common import SimKill
        from .clustersim import canon_value

        def wrapper(*args, **kwargs):
            if p.dead:
                raise SimKill()
            pos = p.obj.raftLastApplied + 1
            kw = dict(kwargs)
            kw.pop('_doApply', None)
            # canonical copies now: the method may keep (and later mutate) the argument objects
            args_c = canon_value(tuple(args))
            kw = canon_value(kw)
            try:
                r = meth(*args, **kwargs)
            except Exception as e:
                p.events.append(('apply', pos, fid, args_c, kw, ('exc', type(e).__name__)))
                raise
            p.events.append(('apply', pos, fid, args_c, kw, ('ret', canon_value(r))))
            return r
        return wrapper

    # -- event sinks ------------------------------------------------------------------
    def on_submit_bytes(self, data):
        s = self.cur_sub
        if s is None:
            # submitted by library code (lock manager thread, tryAcquire, setCodeVersion ...): decode the
            # command so that the reference model can follow
            s = self.anonymous_sub(data)
            if s is None:
                return
        if s is not None and s.get('bytes') is None:
            s['bytes'] = data
            lst = self.cmd2sub.setdefault(data, [])
            lst.append(s)
            if len(lst) > 1:
                # identical bytes (e.g. two lst.pop() calls): the model can still follow, but a
                # callback can not be tied to one position; the uid based C02 clauses skip these
                for x in lst:
                    x['ambiguous'] = True

    def new_model(self):
        f = getattr(self, 'model_factory', None)
        return f() if f is not None else Model(self.sim)

    def model_apply(self, model, cmd, sub):
        if hasattr(model, 'apply_fid'):
            try:
                dec = _pickle.loads(cmd[1:])
            except Exception:
                return ('exc', 'undecodable')
            if not isinstance(dec, tuple):
                return model.apply_fid(dec, ())
            return model.apply_fid(dec[0], dec[1])
        return model.apply(sub)

    def anonymous_sub(self, data):
        if cmd_type(data) != REGULAR:
            return None
        try:
            dec = _pickle.loads(data[1:])
        except Exception:
            return None
        if not isinstance(dec, tuple):
            fid, args, kw = dec, (), {}
        elif len(dec) == 2:
            fid, args, kw = dec[0], dec[1], {}
        else:
            fid, args, kw = dec
        info = self.fid_info.get(fid)
        if info is None:
            return None
        self.anon += 1
        sub = {'uid': -self.anon, 'key': None, 'inc': None, 'target': info[0], 'method': info[1], 'args': tuple(args), 'kwargs': dict(kw),
               'step': self.sim.step, 'cbs': [], 'bytes': None, 't': CLK.now, 'role': 'library', 'ambiguous': True}
        return sub

    def on_submit(self, p, sub):
        obj = p.obj
        sub['role'] = 'ro' if not p.voter else ('leader' if obj._isLeader() else 'follower')
        self.obs['submit_' + sub['role']] += 1
        for e in self.ext:
            e.on_submit(p, sub)

    def on_callback(self, p, sub, res, err):
        sub['cbs'].append((self.sim.step, res, err, p.inc))
        self.obs['cb_' + FAIL_NAMES.get(err, str(err))] += 1
        if len(sub['cbs']) > 1:
            self.flag('C02', 'callback_twice', 'uid %d callbacks %r' % (sub['uid'], [(c[0], c[2]) for c in sub['cbs']]),
                            reasons=[c[2] for c in sub['cbs']])
        if err != 0:
            self.sit['non_success_callback'] += 1
        self.pending_cb.append((p, sub, res, err))
        for e in self.ext:
            e.on_callback(p, sub, res, err)

    def on_journal_add(self, p, cmd, idx, term, prev):
        key = (idx, term)
        hc = h32(cmd)
        old = self.cmd_of.setdefault(key, hc)
        if old != hc:
            self.flag('C04', 'log_matching_cmd', 'two different commands stored as (idx=%d, term=%d)' % key, idx=idx, term=term)
        if prev is not None and prev[1] == idx - 1:
            o = self.prev_of.setdefault(key, prev[2])
            if o != prev[2]:
                self.flag('C04', 'log_matching_prev', 'entry (idx=%d, term=%d) follows terms %d and %d' % (idx, term, o, prev[2]),
                                idx=idx, term=term)
        c = self.committed.get(idx)
        if c is not None and c[0] != term and p is not None:
            # A deposed leader may legitimately append its own (doomed) entry at a position that
            # is committed elsewhere.  What must not happen: a node that held the committed entry,
            # or knows the position to be committed, stores something else there.
            if idx in p.dropped_committed or (p.last_commit is not None and p.last_commit >= idx):
                self.flag('C04', 'committed_overwritten', '%r stores term %d at committed position %d (committed term %d)'
                                % (p, term, idx, c[0]), idx=idx)

    def msg_summary(self, msg):
        if not isinstance(msg, dict):
            return repr(msg)[:60]
        out = {}
        for k, v in msg.items():
            if k == 'entries':
                out[k] = [(e[1], e[2]) for e in v]
            elif k in ('data', 'command'):
                out[k] = '<%d bytes>' % len(v)
            elif k == 'serialized':
                out[k] = None if v is None else ('<%d bytes>' % len(v[0]), v[1], v[2])
            else:
                out[k] = v
        return out

    def on_send(self, p, dest, conn, msg, size):
        t = msg.get('type') if isinstance(msg, dict) else None
        self.sim.trace.append((self.sim.step, 'SEND', p.key[-6:], '->', dest[-6:], 'c%d' % conn.cid, self.msg_summary(msg)))
        self.obs['sent_' + str(t)] += 1
        if t in ('request_vote', 'response_vote'):
            if not p.voter:
                self.flag('C18', 'observer_votes', 'read-only node %r sent %s' % (p, t))
            term = msg['term']
            cand = p.key if t == 'request_vote' else dest
            self.note_vote(p, term, cand)
            if t == 'response_vote':
                self.last_voter = p.key
                self.sit['vote_granted'] += 1
        if t == 'append_entries':
            if 'prevLogIdx' in msg and msg.get('transmission') in (None, 'start'):
                k = (p.key, p.inc, dest)
                v = msg['prevLogIdx']
                if v is not None and (k not in self.min_prev or v < self.min_prev[k]):
                    self.min_prev[k] = v
            if msg.get('transmission') is not None:
                self.obs['chunked_entry_msgs'] += 1
            if msg.get('serialized') is not None:
                self.obs['snapshot_chunks_sent'] += 1
                if not msg['serialized'][2]:
                    self.last_snapshot_conn = conn.cid
        if t in ('request_vote', 'response_vote', 'next_node_idx') and p.voter:
            self.note_ack_term(p, p.obj.raftCurrentTerm, acting=t)
        for e in self.ext:
            e.on_send(p, dest, conn, msg)

    def note_vote(self, p, term, cand):
        d = self.votes.setdefault((p.key, term), {})
        if cand not in d:
            d[cand] = p.inc
        if len(d) > 1:
            incs = set(d.values())
            restart = len(incs) > 1
            self.flag('C07' if restart else 'C03', 'double_vote',
                            '%s voted for %s in term %d' % (p.key, sorted(d), term),
                            voter_restarted_between_grants=restart)

    def note_ack_term(self, p, term, acting=None):
        cur = self.ackterm.get(p.key)
        if cur is not None and term < cur[0] and acting is not None:
            self.flag('C07', 'acts_in_older_term',
                            '%r sends %s in term %d after %s had acknowledged term %d' % (p, acting, term, p.key, cur[0]),
                            restart_between=(cur[1] != p.inc), acting=acting)
        if cur is None or term > cur[0]:
            self.ackterm[p.key] = (term, p.inc)

    def on_deliver(self, rcv, snd, conn, msg):
        t = msg.get('type') if isinstance(msg, dict) else None
        self.sim.trace.append((self.sim.step, 'RECV', rcv.key[-6:], '<-', snd.key[-6:], 'c%d' % conn.cid, self.msg_summary(msg)))
        if snd.voter:
            rcv.heard[snd.key] = CLK.now
        if t == 'append_entries':
            if msg.get('term', -1) >= rcv.obj.raftCurrentTerm:
                self.last_ae[rcv.key] = CLK.now
        if t == 'response_vote':
            # a vote reply delivered after its election ended
            if rcv.obj.raftCurrentTerm != msg.get('term') or rcv.obj._isLeader():
                self.sit['late_vote_reply'] += 1
        for e in self.ext:
            e.on_deliver(rcv, snd, conn, msg)

    def on_kill(self, p):
        self.obs['kills'] += 1
        for e in self.ext:
            e.on_kill(p)

    def on_restart(self, old, new):
        self.obs['restarts'] += 1
        for e in self.ext:
            e.on_restart(old, new)

    def on_conn_event(self, p, what, peer, conn):
        self.obs['conn_' + what] += 1

    def on_partition(self):
        sim = self.sim
        now = CLK.now
        for key in sim.members0:        # by address, whether or not a process runs there right now (it may restart later)
            others = [k for k in sim.members0 if k != key]
            cut = all(sim.pair_blocked(key, k) for k in others) and bool(others)
            if cut and key not in self.cut_since:
                self.cut_since[key] = (now, sim.uid)
            elif not cut:
                self.cut_since.pop(key, None)

    def on_state_change(self, p, old, new):
        self.obs['state_%d_%d' % (old, new)] += 1
        p.rstate = new
        if not p.voter and new != 0:
            self.flag('C18', 'observer_role', 'read-only node %r entered raft state %d' % (p, new))
        if new == 1:
            p.cand_since = CLK.now
        if new == 2:
            p.leader_since = CLK.now
            # what it heard while it was a candidate (the votes) counts as heard at the start of its leadership; voters it has
            # not heard from in that election keep the time they really were last heard (an election won without having heard
            # from a majority must not restart the clock)
            cs = getattr(p, 'cand_since', None)
            if cs is None:
                cs = CLK.now
            p.heard = dict((k, (CLK.now if t >= cs else t)) for k, t in p.heard.items())
            p.elected_with = sorted(k for k, t in p.heard.items() if t >= cs)
        if new == 1 and self.quiet is not None and self.quiet.get('leader_seen'):
            la = self.last_ae.get(p.key)
            if la is not None and CLK.now - la < p.conf.raftMinTimeout - 1e-3 and old == 0:
                self.flag('C05', 'spurious_election',
                                '%r starts an election %.3fs after an append_entries of its leader' % (p, CLK.now - la))
        for e in self.ext:
            e.on_state_change(p, old, new)

    def on_escaped(self, p, sig, exc):
        self.obs['escaped'] += 1
        for e in self.ext:
            e.on_escaped(p, sig, exc)

    def on_serialize(self, p, data, id):
        self.obs['serialize'] += 1
        for e in self.ext:
            e.on_serialize(p, data, id)

    def on_load(self, p, data):
        try:
            k = data[1][1]
        except Exception:
            k = None
        p.events.append(('load', k))
        self.obs['snapshot_loads'] += 1
        for e in self.ext:
            e.on_load(p, data)

    def on_chunk_in(self, p, data, done):
        self.obs['snapshot_chunks_in'] += 1
        for e in self.ext:
            e.on_chunk_in(p, data, done)

    def version_entries(self):
        """[(pos, requested version)] of the committed VERSION entries, in log order (incremental scan)."""
        while self._ver_scanned < self.maxc and (self._ver_scanned + 1) in self.committed:
            self._ver_scanned += 1
            c = self.committed[self._ver_scanned]
            if cmd_type(c[1]) == VERSION:
                try:
                    self._ver_entries.append((self._ver_scanned, _pickle.loads(c[1][1:])))
                except Exception:
                    pass
        return self._ver_entries

    def version_at(self, k):
        """Enabled code version defined by the log prefix k: requests for a lower version are rejected
        (property statement), so it is the running maximum of the requested versions."""
        v = 0
        for pos, want in self.version_entries():
            if pos > k:
                break
            if want > v:
                v = want
        return v

    # -- C20 -----------------------------------------------------------------------
    def before_tick(self, p):
        p._t0 = CLK.now
        p._lead0 = p.voter and p.obj._isLeader()
        if self.cfg.get('dynamic') and p._lead0:
            p._voters0 = self.voters_of(p)

    def silence_of_majority(self, p, others):
        """Seconds (at the start of the tick) since the voter that completes a majority was last heard.  A voter the
        leader has never heard counts from the later of: the start of this leadership, the moment it became a
        voter in the leader's view."""
        need = (len(others) + 1) // 2
        if need < 1:
            return None
        base = p.leader_since if p.leader_since is not None else p._t0
        ms = getattr(p, 'member_since', {})
        born = getattr(p, 'born_time', base)
        # a change of the voter set in the leader's view moves the majority: what it had heard of the old majority covers it
        # until then, so the new one is measured from the change
        vc = getattr(p, 'view_changed_at', born)
        times = sorted((max(p.heard.get(k, born), ms.get(k, born), vc) for k in others), reverse=True)
        return p._t0 - times[need - 1]

    def after_tick(self, p):
        if p.dead or not p._lead0:
            return
        if not p.obj._isLeader():
            self.obs['leader_stepdowns'] += 1
            return
        if self.cfg.get('dynamic'):
            # the member set may change inside the tick: the verdict has to hold for the set before and after it
            views = [sorted(getattr(p, '_voters0', self.voters_of(p)) - {p.key}), sorted(self.voters_of(p) - {p.key})]
        else:
            views = [[k for k in self.sim.members0 if k != p.key]]
        sil = [self.silence_of_majority(p, o) for o in views]
        if any(x is None for x in sil):
            return
        silence = min(sil)
        fb = p.conf.leaderFallbackTimeout
        self.obs['c20_leader_ticks'] += 1
        if silence > fb * 0.5:
            self.sit['leader_silent_half_timeout'] += 1
        if silence > fb + 1e-3:
            self.flag('C20', 'no_stepdown',
                            '%r still leader after tick at t=%.3f; majority-completing voter last heard %.3fs ago > fallback %.3f'
                            % (p, p._t0, silence, fb), n=len(views[-1]) + 1, dynamic=bool(self.cfg.get('dynamic')))

    # -- core after-step evaluation -----------------------------------------------------
    def voters_of(self, p):
        if p is not None and p.voter and not p.dead:
            try:
                return set(n.id for n in p.obj.otherNodes) | {p.key}
            except Exception:
                pass
        return set(self.sim.members0)

    def holds(self, key, pos, term):
        q = self.sim.procs.get(key)
        if q is None or q.journal is None:
            return False
        if q.dead:
            # a process that is down: what it had vouched for before it was killed is owed by its next incarnation - whether
            # its files still hold it is judged (and reported) by the recovery monitor when it is back, not by whoever counted it
            for e in self.ext:
                di = getattr(e, 'dead_info', None)
                if di is not None and key in di and (pos, term) in di[key]['vouched']:
                    return True
        j = q.journal
        f = j.first_idx()
        if f is None:
            return False
        if pos < f:
            return True
        e = j.entry(pos)
        return e is not None and e[2] == term

    def majority(self, voters, pos, term):
        n = sum(1 for v in voters if self.holds(v, pos, term))
        return n, len(voters), n > len(voters) / 2.0

    def register_commits(self, p, c0, c1):
        j = p.journal
        sim = self.sim
        for pos in range(c0 + 1, c1 + 1):
            e = j.entry(pos)
            if e is None:
                f = j.first_idx()
                if f is not None and pos < f:
                    if pos not in self.committed:
                        self.flag('C04', 'commit_unknown_compacted', '%r commit index %d covers position %d that nobody committed' % (p, c1, pos))
                    continue
                self.flag('C04', 'commit_beyond_log', '%r reports commit index %d but its log ends at %r' % (p, c1, j.last_idx()),
                          role='leader' if p.obj._isLeader() else 'follower')
                continue
            known = self.committed.get(pos)
            if known is not None:
                if known[0] != e[2] or known[1] != e[0]:
                    self.flag('C04', 'committed_entry_differs',
                                    '%r reports position %d committed with term %d, but it was committed with term %d'
                                    % (p, pos, e[2], known[0]), role='leader' if p.obj._isLeader() else 'follower', pos=pos)
                continue
            voters = self.voters_of(p)
            have, tot, ok = self.majority(voters, pos, e[2])
            if not ok and self.cfg.get('dynamic') and getattr(p, 'prev_members', None):
                # the member set may have changed later in this very step (a queued membership request is
                # processed after the commit computation of the same tick): the set the node held when
                # the step began is the other candidate for "its member set at the commit"
                have, tot, ok = self.majority(p.prev_members, pos, e[2])
            self.obs['commit_majority_checks'] += 1
            if not ok:
                self.flag('C04', 'commit_without_majority',
                                '%r reports position %d (term %d) committed; stored by %d of %d voters at this step'
                                % (p, pos, e[2], have, tot), role='leader' if p.obj._isLeader() else 'follower', pos=pos,
                                observers=len(sim.ro_keys))
            if not p.obj._isLeader():
                self.sit['first_commit_report_by_follower'] += 1
            if e[2] != p.obj.raftCurrentTerm:
                self.sit['commit_of_older_term_entry'] += 1
            self.committed[pos] = (e[2], e[0], p.obj.raftCurrentTerm)
            if pos > self.maxc:
                self.maxc = pos
            self.advance_model()
        if c1 > c0 and p.obj._isLeader() and not p.dead:
            # a leader decides commits by counting replicas only for entries of its own term (older ones
            # become committed with them): the highest position it newly reports must be of its current term,
            # otherwise a later leader can lack the entry although a majority stores it (Raft, figure 8)
            top = j.entry(c1)
            if top is not None and top[2] != p.obj.raftCurrentTerm:
                self.flag('C04', 'commit_of_older_term_by_counting',
                          '%r (leader of term %d) advanced its commit index to %d whose entry is of term %d'
                          % (p, p.obj.raftCurrentTerm, c1, top[2]), pos=c1)
        if c1 > c0:
            # deciding situation: commit advance with >= 2 append_entries in flight to one follower
            if p.obj._isLeader():
                for c in sim.conns.values():
                    side = c.side_of(p)
                    if side is not None:
                        n = 0
                        for m in c.q[side]:
                            if isinstance(m, bytes) and b'append_entries' in m[:60]:
                                n += 1
                        if n >= 2:
                            self.sit['commit_with_2plus_ae_in_flight'] += 1
                            break

    def advance_model(self):
        while self.mnext in self.committed and self.model_broken is None:
            pos = self.mnext
            term, cmd = self.committed[pos][:2]
            ct = cmd_type(cmd)
            if ct == REGULAR:
                subs = self.cmd2sub.get(cmd)
                if not subs:
                    if not hasattr(self.model, 'apply_fid'):
                        self.model_broken = pos
                        break
                    subs = [{'uid': None, 'ambiguous': True, 'cbs': []}]
                sub = subs[0]
                if not sub.get('ambiguous'):
                    if sub['uid'] in self.pos_of_uid:
                        self.flag('C02', 'committed_twice', 'uid %d committed at positions %d and %d'
                                        % (sub['uid'], self.pos_of_uid[sub['uid']], pos))
                    self.pos_of_uid[sub['uid']] = pos
                    for (_, _, err, _) in sub['cbs']:
                        if err in NEVER_APPLIED:
                            self.flag('C02', 'failed_but_committed', 'uid %d reported %s but is committed at %d'
                                            % (sub['uid'], FAIL_NAMES[err], pos), reason=FAIL_NAMES[err])
                else:
                    self.obs['ambiguous_commands_committed'] += 1
                self.mret[pos] = self.model_apply(self.model, cmd, sub)
                if self.mret[pos][0] == 'exc':
                    self.failed_pos[pos] = sub
            self.mcheap[pos] = self.model.cheap()
            self.mnext += 1

    def model_full_at(self, k):
        if k in self.mfull_cache:
            return self.mfull_cache[k]
        m = self.new_model()
        for pos in range(2, k + 1):
            c = self.committed.get(pos)
            if c is None:
                return None
            if cmd_type(c[1]) == REGULAR:
                subs = self.cmd2sub.get(c[1])
                if not subs and not hasattr(m, 'apply_fid'):
                    return None
                self.model_apply(m, c[1], subs[0] if subs else None)
        self.mfull_cache[k] = v = (m.full(), m.cheap())
        return v

    def node_digests(self, p):
        d = p.obj.__dict__.get('d')
        return full_digest(d, p.consumers), cheap_digest(d, p.consumers)

    def next_regular(self, after, upto):
        pos = after + 1
        while pos <= upto:
            c = self.committed.get(pos)
            if c is None:
                return None
            if cmd_type(c[1]) == REGULAR:
                return pos
            pos += 1
        return None

    def check_applies(self, p, a0, a1):
        from .clustersim import canon_value
        ev = p.events
        cur = a0
        jumped = False
        for e in ev:
            if e[0] == 'load':
                k = e[1]
                if k is not None:
                    cur = k
                    jumped = True
                    self.sit['snapshot_load'] += 1
                continue
            _, pos, fid, args, kw, out = e
            self.obs['apply_events'] += 1
            exp = self.next_regular(cur, self.maxc)
            if pos in p.raised_pos:
                self.flag('C12', 'reapply_after_raise', '%r executes position %d again after the method raised there '
                                '(applied index stays at %d)' % (p, pos, a1))
            if out[0] == 'exc':
                p.raised_pos.add(pos)
            if exp is None or pos != exp:
                self.flag('C01', 'apply_wrong_position',
                                '%r executed a command as position %d; next committed user command after %d is at %r'
                                % (p, pos, cur, exp), expected=exp, got=pos)
                if pos not in self.committed:
                    cur = max(cur, pos)
                    continue
            term, cmd = self.committed[pos][:2]
            try:
                dec = _pickle.loads(cmd[1:])
            except Exception:
                dec = None
            if not isinstance(dec, tuple):
                dfid, dargs, dkw = dec, (), {}
            elif len(dec) == 2:
                dfid, dargs, dkw = dec[0], dec[1], {}
            else:
                dfid, dargs, dkw = dec
            if dfid != fid or canon_value(tuple(dargs)) != args or canon_value(dkw) != kw:
                self.flag('C01', 'apply_differs_from_committed',
                                '%r executed method %r%r at position %d, committed entry is %r%r' % (p, fid, args, pos, dfid, dargs))
            m = self.mret.get(pos)
            if m is not None:
                got = (out[0], out[1])
                if got != m:
                    self.flag('C01', 'apply_result_differs', '%r position %d returned %r, reference model %r' % (p, pos, got, m))
            if out[0] == 'exc':
                # the entry raised: the property (C12) wants the node to move past it
                self.obs['apply_raised'] += 1
            cur = pos
        # nothing skipped at the end
        if a1 > cur:
            nr = self.next_regular(cur, min(a1, self.maxc))
            if nr is not None:
                self.flag('C01', 'apply_skipped', '%r moved its applied index to %d without executing the user command at %d'
                                % (p, a1, nr), pos=nr)
        if a1 > self.maxc:
            self.flag('C01', 'applied_uncommitted', '%r applied index %d beyond every reported commit index %d' % (p, a1, self.maxc))
        # state = replay of prefix (not judged on the memory of a process that was killed in this step)
        if p.dead:
            return
        if self.model_broken is None or a1 < self.model_broken:
            mc = self.mcheap.get(a1)
            if mc is not None:
                fullcheck = jumped or (a1 % 32 == 0)
                nf = None
                if fullcheck:
                    nf, nc = self.node_digests(p)
                else:
                    d = p.obj.__dict__.get('d')
                    nc = cheap_digest(d, p.consumers)
                self.obs['digest_checks'] += 1
                if nc != mc:
                    self.flag('C01', 'state_differs_from_prefix', '%r at applied index %d has digest %r, replay of the prefix gives %r'
                                    % (p, a1, nc, mc), after_snapshot=jumped)
                if fullcheck:
                    mf = self.model_full_at(a1)
                    p.full_checks += 1
                    self.obs['full_digest_checks'] += 1
                    if mf is not None and mf[0] != nf:
                        self.flag('C01', 'state_differs_from_prefix',
                                        '%r at applied index %d: full state differs from replay of the prefix' % (p, a1),
                                        after_snapshot=jumped)

    def check_retention(self, p):
        """A committed entry must stay majority-backed when somebody drops it."""
        for m in p.journal.muts:
            if m[0] in ('cut', 'clear'):
                dropped = m[1]
                kind = 'truncate' if m[0] == 'cut' else 'snapshot_install'
                for (cmd, idx, term) in dropped:
                    c = self.committed.get(idx)
                    if c is None or c[0] != term:
                        continue
                    if self.holds(p.key, idx, term):
                        continue
                    self.obs['committed_entries_dropped'] += 1
                    # Dropping it is only wrong for a node that has acknowledged the term under which it was committed
                    # (or a later one): a straggler of an older term - a read-only node, a voter outside the committing
                    # majority - may still follow a deposed leader and swap the entry for a doomed one.
                    if p.obj.raftCurrentTerm >= c[2]:
                        p.dropped_committed.add(idx)
                    else:
                        self.sit['straggler_dropped_committed_entry_for_stale_leader'] += 1
                    voters = self.voters_of(p)
                    have, tot, ok = self.majority(voters, idx, term)
                    if not ok:
                        self.flag('C04', 'committed_entry_lost_majority',
                                        '%r dropped committed entry %d (term %d) by %s; now stored by %d of %d voters'
                                        % (p, idx, term, kind, have, tot), op=kind)
            if m[0] == 'cut':
                self.obs['truncations'] += 1
            elif m[0] == 'clear':
                self.obs['journal_clears'] += 1
            elif m[0] == 'trim':
                self.obs['compactions'] += 1

    def check_leader(self, p):
        obj = p.obj
        isl = p.voter and obj._isLeader()
        term = obj.raftCurrentTerm
        if isl:
            s = self.leaders.setdefault(term, {})
            if p.key not in s:
                s[p.key] = p.inc
                if len(s) > 1:
                    self.flag('C07' if self.kills else 'C03', 'two_leaders_one_term',
                                    'term %d has leaders %s' % (term, sorted(s)), term=term, restarts=self.kills)
            if not p.was_leader or p.leader_term != term:
                # became leader in this step: leader completeness
                self.obs['elections_won'] += 1
                j = p.journal
                f = j.first_idx()
                missing_on_minority = False
                for pos in range(max(2, f), self.maxc + 1):
                    c = self.committed.get(pos)
                    if c is None or c[2] >= term:
                        # only entries committed under leaders of earlier terms bind this leader
                        continue
                    e = j.entry(pos)
                    if e is None or e[2] != c[0]:
                        self.flag('C07' if self.kills else 'C03', 'leader_incomplete',
                                        '%r became leader of term %d without committed entry %d (term %d); its log holds %r'
                                        % (p, term, pos, c[0], (e[1], e[2]) if e else None), pos=pos, restarts=self.kills)
                for q in self.sim.live():
                    if q.voter and q is not p and (q.journal.last_idx() or 0) < self.maxc:
                        missing_on_minority = True
                if missing_on_minority:
                    self.sit['leader_elected_while_minority_lacks_committed'] += 1
                if (j.last_idx() or 0) > self.maxc + 1:
                    self.sit['leader_change_with_uncommitted_entries'] += 1
                p.leader_term = term
        elif not p.voter and obj._isLeader():
            self.flag('C18', 'observer_role', 'read-only node %r reports itself leader' % (p,))
        if p.voter and getattr(p, 'rstate', 0) == 1:
            ncand = sum(1 for q in self.sim.live() if q.voter and getattr(q, 'rstate', 0) == 1)
            if ncand >= 2:
                self.sit['two_simultaneous_candidates'] += 1
        p.was_leader = isl

    def check_quorum_flag(self, p):
        obj = p.obj
        t = p.transport
        known = set(n.id for n in obj.otherNodes)
        conn = 0
        for nid in known:
            c = t.conns.get(nid)
            if c is not None:
                side = c.side_of(p)
                if side is not None and c.open[side] and (side == 0 or c.hello_done):
                    conn += 1
        selfv = 1 if p.voter else 0
        exp = (conn + selfv) > (len(known) + selfv) / 2.0
        self.obs['quorum_flag_checks'] += 1
        if not exp:
            self.sit['quorum_flag_false'] += 1
        if bool(obj.hasQuorum) != exp:
            self.flag('C20', 'has_quorum_wrong', '%r hasQuorum=%r but connected to %d of %d known voters (self voter=%d)'
                            % (p, obj.hasQuorum, conn, len(known), selfv))

    def after_step(self, p, action):
        sim = self.sim
        if p is None or p.obj is None:
            return
        if p.dead:
            if not getattr(p, 'final_checked', False) and p.journal is not None:
                # the step in which the process was killed: what it did before the kill instant was
                # visible (callbacks fired, messages sent), so its last commits/applies still count
                p.final_checked = True
                try:
                    c1, a1 = p.obj.raftCommitIndex, p.obj.raftLastApplied
                    if c1 > p.last_commit and c1 <= (p.journal.last_idx() or 0):
                        self.register_commits(p, p.last_commit, c1)
                        p.last_commit = c1
                    if p.events and a1 <= self.maxc:
                        self.check_applies(p, p.last_applied, a1)
                        p.last_applied = a1
                finally:
                    p.events = []
                    p.journal.muts[:] = []
                if self.pending_cb:
                    self.check_callbacks()
                return
            p.events = []
            if p.journal is not None:
                p.journal.muts[:] = []
            return
        obj = p.obj
        c1 = obj.raftCommitIndex
        a1 = obj.raftLastApplied
        c0 = p.last_commit
        a0 = p.last_applied
        loads = [e for e in p.events if e[0] == 'load']
        if c1 < c0:
            self.flag('C04', 'commit_index_backwards', '%r commit index %d -> %d' % (p, c0, c1), after_load=bool(loads))
        if a1 < a0:
            self.flag('C04', 'applied_index_backwards', '%r applied index %d -> %d' % (p, a0, a1), after_load=bool(loads))
        if p.journal.muts:
            self.check_retention(p)
        if c1 > c0:
            self.register_commits(p, c0, c1)
        if a1 != a0 or p.events:
            self.check_applies(p, a0, a1)
        p.last_commit = c1
        p.last_applied = a1
        if self.cfg.get('dynamic'):
            now_members = self.voters_of(p)
            ms = getattr(p, 'member_since', None)
            if ms is None:
                ms = p.member_since = {}
            for k in now_members - (getattr(p, 'prev_members', None) or set()):
                ms[k] = CLK.now
            if getattr(p, 'prev_members', None) is not None and now_members != p.prev_members:
                p.view_changed_at = CLK.now
            p.prev_members = now_members
        self.check_leader(p)
        if p.voter:
            self.note_ack_term(p, obj.raftCurrentTerm)
        self.check_quorum_flag(p)
        if self.pending_cb:
            self.check_callbacks()
        for e in self.ext:
            e.after_step(p, action)
        p.events = []
        p.journal.muts[:] = []

    # -- C02 ------------------------------------------------------------------------
    def check_callbacks(self):
        from .clustersim import canon_value
        pend, self.pending_cb = self.pending_cb, []
        for (p, sub, res, err) in pend:
            uid = sub['uid']
            if sub.get('ambiguous'):
                continue
            if err == 0:
                pos = self.pos_of_uid.get(uid)
                if pos is None:
                    self.flag('C02', 'success_not_committed', 'uid %d reported SUCCESS by %r but occupies no committed position'
                                    % (uid, p), role=sub.get('role'))
                if p.obj.raftLastApplied < pos and not p.dead:
                    self.flag('C02', 'success_before_apply', 'uid %d reported SUCCESS by %r (applied %d) before position %d was applied'
                                    % (uid, p, p.obj.raftLastApplied, pos))
                m = self.mret.get(pos)
                if m is not None and m[0] == 'ret' and canon_value(res) != m[1]:
                    self.flag('C02', 'success_wrong_result', 'uid %d SUCCESS result %r, executing position %d returns %r'
                                    % (uid, res, pos, m[1]))
                if m is not None and m[0] == 'exc' and res is not None:
                    # the command raised when it was executed: it has no result, least of all some other command's
                    self.flag('C02', 'success_wrong_result', 'uid %d SUCCESS result %r, but executing position %d raises %s'
                                    % (uid, res, pos, str(m[1])[:80]), raised=True)
                self.obs['success_checked'] += 1
                if sub.get('role') != 'leader':
                    self.sit['success_for_forwarded_command'] += 1
                cs = self.cut_since.get(p.key)
                if cs is not None and uid > 100000 + cs[1] and not self.cfg.get('dynamic'):
                    self.flag('C20', 'success_while_cut_off', '%r acknowledged uid %d with SUCCESS while cut off from all voters since t=%.3f'
                                    % (p, uid, cs[0]))
            elif err in NEVER_APPLIED:
                if uid in self.pos_of_uid:
                    self.flag('C02', 'failed_but_committed', 'uid %d reported %s but is committed at %d'
                                    % (uid, FAIL_NAMES[err], self.pos_of_uid[uid]), reason=FAIL_NAMES[err])

    # -- C05: quiet phase -----------------------------------------------------------
    def quiet_begin(self):
        sim = self.sim
        cfg = self.cfg
        live = sim.live()
        longest = max([len(p.journal.mirror) for p in live] + [1])
        rmax = cfg.get('raft_max', 1.4)
        ae = cfg.get('ae_period', 0.1)
        W = 40 * rmax + 2 * ae * longest
        self.quiet = {'t0': CLK.now, 'W': W, 'win_start': CLK.now, 'phi': None, 'windows': 0, 'stage': 'converge', 'final': [],
                      'leader_seen': False, 'leader_deadline': CLK.now + 40 * rmax, 'judge': cfg.get('liveness', True)}
        self.sit['quiet_entered'] += 1
        # deciding situations at quiet entry
        leaders = [p for p in live if p.voter and p.obj._isLeader()]
        for p in live:
            if leaders and p is not leaders[0]:
                lf = leaders[0].journal.first_idx()
                if (p.journal.last_idx() or 0) < (lf or 0):
                    self.sit['quiet_follower_needs_snapshot'] += 1
                    break
        if any(getattr(p.serializer, '_Serializer__incomingTransmissionFile', None) is not None for p in live):
            self.sit['quiet_half_received_snapshot'] += 1
        self.quiet['phi'] = self.phi()

    def phi(self):
        sim = self.sim
        live = sim.live()
        leaders = [p for p in live if p.voter and p.obj._isLeader()]
        maxc = max([p.obj.raftCommitIndex for p in live] + [0])
        mina = min([p.obj.raftLastApplied for p in live] + [10 ** 9])
        pref = []
        if len(leaders) == 1:
            L = leaders[0]
            lm = L.journal.mirror
            for p in sorted(live, key=lambda x: x.key):
                if p is L:
                    continue
                # common prefix (by idx,term) measured as highest matching index
                best = 0
                pm = p.journal.mirror
                if pm and lm:
                    lo = max(pm[0][1], lm[0][1])
                    hi = min(pm[-1][1], lm[-1][1])
                    i = hi
                    while i >= lo:
                        a = p.journal.entry(i)
                        b = L.journal.entry(i)
                        if a is not None and b is not None and a[2] == b[2]:
                            best = i
                            break
                        i -= 1
                pref.append(best)
            # (only peers the leader lists now: a read-only node gets a new id with every connection, and one that reconnects for
            # ever must not look like progress)
            try:
                listed = set(str(n.id) for n in getattr(L.obj, '_SyncObj__raftNextIndex', {}))
            except Exception:
                listed = None
            mp = tuple(sorted(((k[2] if ':' in str(k[2]) else 'ro'), v) for k, v in self.min_prev.items() if k[0] == L.key and k[1] == L.inc
                              and (listed is None or str(k[2]) in listed)))
        else:
            mp = ()
        nsucc = sum(1 for s in self.quiet['final'] if s['cbs']) if self.quiet else 0
        return (maxc, mina, tuple(pref), mp, nsucc, len(leaders) == 1)

    def converged_basic(self):
        sim = self.sim
        live = sim.live()
        leaders = [p for p in live if p.voter and p.obj._isLeader()]
        if len(leaders) != 1:
            return False
        L = leaders[0]
        c = L.obj.raftCommitIndex
        if L.journal.last_idx() != c:
            return False
        for p in live:
            if p.obj.raftLastApplied != c or p.obj.raftCommitIndex != c:
                return False
        return True

    def quiet_status(self):
        sim = self.sim
        q = self.quiet
        now = CLK.now
        live = sim.live()
        leaders = [p for p in live if p.voter and p.obj._isLeader()]
        if leaders:
            q['leader_seen'] = True
        judge = q['judge']
        if not q['leader_seen'] and now > q['leader_deadline'] and judge:
            nv = [p for p in live if p.voter]
            if len(nv) > len(self.current_voters()) / 2.0:
                self.flag('C05', 'no_leader', 'no leader %.1fs after faults stopped (%d voters alive)' % (now - q['t0'], len(nv)),
                          dial_impossible=self.dial_impossible())
                return 'failed'
        if q['stage'] == 'converge':
            # "stable" = one leader and equal applied indexes continuously for two maximal election
            # timeouts (every follower's timer has been reset by this leader since)
            if self.converged_basic():
                if q.get('stable_since') is None:
                    q['stable_since'] = now
                elif now - q['stable_since'] >= 2 * self.cfg.get('raft_max', 1.4):
                    self.check_equal_replicas('C05')
                    q['stage'] = 'final'
                    q['todo'] = self.cfg.get('final_cmds', 3)
            else:
                q['stable_since'] = None
        if q['stage'] == 'final':
            done = [s for s in q['final'] if s['cbs']]
            if len(done) == len(q['final']) and q['todo'] > 0:
                # one at a time: a queue limit of 0 admits a single waiting command
                p = sim.rng.choice(live)
                before = sim.uid
                sim.one_step(sim.final_command(p))
                if sim.uid > before:
                    q['final'].append(sim.subs[100000 + sim.uid])
                    q['todo'] -= 1
                return None
            for s in done:
                err = s['cbs'][0][2]
                if err != 0 and judge:
                    self.flag('C05', 'post_quiet_command_failed', 'command submitted on %s after convergence reported %s'
                              % (s['key'], FAIL_NAMES.get(err, err)), reason=FAIL_NAMES.get(err, str(err)))
                    return 'failed'
            if len(done) == len(q['final']) and q['todo'] == 0 and self.converged_basic():
                self.check_equal_replicas('C05')
                self.obs['converged'] += 1
                self.obs['converge_vtime_ms'] += int((now - q['t0']) * 1000)
                return 'converged'
        if now - q['win_start'] >= q['W']:
            ph = self.phi()
            if ph == q['phi']:
                if judge:
                    self.flag('C05', 'stuck', 'no progress during %.1fs of fair regime: %r' % (q['W'], self.describe_stuck()),
                              **self.stuck_facts())
                    return 'failed'
                sim.inconclusive = 'not converged (liveness not judged for this configuration)'
                return 'notjudged'
            q['phi'] = ph
            q['win_start'] = now
            q['windows'] += 1
            if q['windows'] >= 10:
                sim.inconclusive = 'slow: still progressing after 10 windows'
                return 'slow'
        return None

    def current_voters(self):
        return set(self.sim.members0)

    def describe_stuck(self):
        live = self.sim.live()
        return {p.key: (getattr(p, 'rstate', 0), p.obj.raftCurrentTerm, p.obj.raftCommitIndex, p.obj.raftLastApplied,
                        p.journal.first_idx(), p.journal.last_idx()) for p in live}

    def dial_impossible(self):
        """Two live members that can never get connected: the one that has to dial (larger address) does
        not know the other, or the one that is dialed does not know the dialer and rejects it."""
        if not self.cfg.get('dynamic'):
            return False
        cur = set(self.current_voters())
        for p in self.sim.live():
            if p.voter and p.key in cur:
                cur |= set(n.id for n in p.obj.otherNodes)      # members by a live member's (possibly uncommitted) configuration
        live = [p for p in self.sim.live() if p.voter and p.key in cur]
        for a in live:
            for b in live:
                if a.key > b.key and (b.key not in a.transport.nodes or a.key not in b.transport.nodes):
                    # the dialer does not dial an unknown peer / the acceptor rejects an unknown dialer
                    return True
        return False

    def stuck_facts(self):
        live = self.sim.live()
        leaders = [p for p in live if p.voter and p.obj._isLeader()]
        facts = {'leaders': len(leaders), 'dial_impossible': self.dial_impossible()}
        if len(leaders) == 1:
            L = leaders[0]
            facts['follower_behind'] = any((p.journal.last_idx() or 0) < (L.journal.last_idx() or 0) for p in live if p is not L)
        facts['final_stage'] = self.quiet['stage'] == 'final'
        return facts

    def check_equal_replicas(self, prop):
        live = self.sim.live()
        digs = {}
        for p in live:
            digs[p.key] = self.node_digests(p)[0]
        if len(set(digs.values())) > 1:
            self.flag(prop, 'replicas_differ', 'connected replicas at the same applied index have different states: %r' % digs)
        a = live[0].obj.raftLastApplied if live else None
        if a is not None and (self.model_broken is None or a < self.model_broken):
            mf = self.model_full_at(a)
            if mf is not None and mf[0] != digs[live[0].key]:
                self.flag('C01', 'state_differs_from_prefix', 'all replicas agree at %d but differ from the replay of the committed prefix' % a,
                                after_snapshot=False)

    # -- end of run -----------------------------------------------------------------
    def end_of_run(self):
        if self.pending_cb:
            self.check_callbacks()
        for uid, sub in self.sim.subs.items():
            if sub.get('ambiguous'):
                continue
            for (_, res, err, _) in sub['cbs']:
                if err in NEVER_APPLIED and uid in self.pos_of_uid:
                    self.flag('C02', 'failed_but_committed', 'uid %d reported %s but is committed at %d'
                                    % (uid, FAIL_NAMES[err], self.pos_of_uid[uid]), reason=FAIL_NAMES[err])
                if err == 0 and uid not in self.pos_of_uid:
                    self.flag('C02', 'success_not_committed', 'uid %d reported SUCCESS but occupies no committed position' % uid)
        for e in self.ext:
            e.end_of_run()
