"""setup_cmd: byte-compile the framework and run a few seconds of substrate self-test."""
import os
import sys
import time
import compileall


def main():
    here = os.path.dirname(os.path.abspath(__file__))
    ok = compileall.compile_dir(here, quiet=1, force=False)
    os.environ.setdefault('PYTHONHASHSEED', '0')
    t0 = time.time()
    from rv.clustersim import Sim
    sim = Sim({'n': 3, 'steps': 1500, 'journal': 'file'}, 1)
    sim.run()
    assert not sim.violations, sim.violations
    assert sim.mon.obs.get('apply_events', 0) > 0, 'no apply events observed'
    print('selftest ok: %d steps, %d apply events, %.1fs' % (sim.step, sim.mon.obs['apply_events'], time.time() - t0))
    return 0 if ok else 1


if __name__ == '__main__':
    sys.exit(main())
