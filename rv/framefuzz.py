"""E4: TCP framing (C13).  Two real TcpConnection objects joined by simulated sockets
(and, in one mode, by a real socketpair with tiny kernel buffers).  The adversary cuts
the byte stream arbitrarily (bytes moved per action, short writes, EAGAIN, split and
merged reads) and, in corruption cases, rewrites one frame in flight.

Oracle: at all times the messages delivered are a prefix of the messages sent (equal by
value); equal at quiescence without faults.  After a frame that is invalid - negative
length, or a payload that does not decompress/unpickle - the receiving connection must
end DISCONNECTED with its disconnect callback fired once and nothing delivered after the
last valid frame; no exception may leave poll() or send().
"""
import os
import json
import zlib
import struct
import random
import pickle
import collections

from .common import CLK, h32, VERIF_DIR, install_virtual_time
from . import socksim
from .socksim import FakeSocket, SimPoller, NET

import pysyncobj.tcp_connection as TC
from pysyncobj.tcp_connection import TcpConnection, CONNECTION_STATE


class V(Exception):
    def __init__(self, kind, msg, **facts):
        Exception.__init__(self, msg)
        self.kind, self.msg, self.facts = kind, msg, facts


class End(object):
    def __init__(self, host):
        self.host = host
        self.got = []
        self.disc = 0
        self.conn = None
        self.poller = None


def make_pair(bufsize):
    net = socksim.reset_net()
    socksim.install()
    ends = []
    socks = []
    for host in ('A', 'B'):
        net.current = host
        s = FakeSocket()
        s.sndbuf = bufsize
        socks.append(s)
    socksim.pair(socks[0], socks[1])
    for host, s in zip(('A', 'B'), socks):
        net.current = host
        e = End(host)
        e.poller = SimPoller()
        e.conn = TcpConnection(poller=e.poller, socket=s, timeout=10 ** 9, sendBufferSize=bufsize, recvBufferSize=max(1, bufsize),
                               onMessageReceived=e.got.append, onDisconnected=lambda e=e: setattr(e, 'disc', e.disc + 1))
        e.sock = s
        ends.append(e)
    return net, ends


def gen_msg(r, bufsize):
    c = r.random()
    if c < 0.2:
        return r.choice([0, '', b'', (), {}, 'readonly', 1.5, ['status'], False])   # not None: the parser uses None for 'no complete frame'
    if c < 0.55:
        return {'type': 'append_entries', 'term': r.randrange(100), 'entries': [(bytes([r.randrange(256)]) * r.randrange(0, 40), i, 1) for i in range(r.randrange(0, 4))]}
    if c < 0.85:
        return os.urandom(1)[:0] + bytes(r.getrandbits(8) for _ in range(r.randrange(0, 4 * bufsize + 2) if bufsize <= 512 else r.randrange(0, 3000)))
    return 'x' * r.randrange(0, 4 * bufsize + 1 if bufsize <= 512 else 5000)


def frame_of(msg):
    data = zlib.compress(pickle.dumps(msg, 2), 3)
    return struct.pack('i', len(data)) + data


def corrupt(r, frame, kind):
    """-> bytes replacing the frame in the stream, and whether the result is detectably invalid."""
    l = struct.unpack('i', frame[:4])[0]
    payload = frame[4:]
    if kind == 'neg_plain':
        return struct.pack('i', -r.randrange(1, 5)) + payload, True
    if kind == 'neg_wrap':
        # [-k][valid payload][k-4 arbitrary bytes]: buf[4:4+l] cuts exactly the valid payload out
        extra = bytes(r.getrandbits(8) for _ in range(r.randrange(1, 12)))
        k = len(extra) + 4
        return struct.pack('i', -k) + payload + extra, True
    if kind == 'len_small':
        if l < 2:
            return None, False
        return struct.pack('i', r.randrange(0, l)) + payload, True
    if kind == 'len_large':
        return struct.pack('i', l + r.randrange(1, 40)) + payload, False
    if kind == 'payload':
        if not payload:
            return None, False
        b = bytearray(payload)
        for _ in range(r.randrange(1, 4)):
            i = r.randrange(len(b))
            b[i] ^= 1 << r.randrange(8)
        return frame[:4] + bytes(b), None      # may or may not still decode: decided by trying
    if kind == 'garbage':
        n = r.randrange(1, 30)
        g = bytes(r.getrandbits(8) for _ in range(n))
        return struct.pack('i', n) + g, True
    if kind == 'bad_pickle':
        # the frame and the compressed stream are intact (zlib's checksum passes), the content is not a usable pickle:
        # the unpickler reports such damage with many different exception types
        good = zlib.decompress(payload)
        c = r.randrange(8)
        if c == 2:
            c = 1          # (one flipped bit can make the unpickler itself run for minutes, e.g. a huge memo index - not the framing layer's business)
        if c == 0:
            bad = bytes([r.choice([0xff, 0xfe, 0x00, 0x07, 0x11])]) + bytes(r.getrandbits(8) for _ in range(r.randrange(0, 40)))   # unknown opcode
        elif c == 1:
            bad = good[:r.randrange(0, max(1, len(good)))]                             # truncated
        elif c == 2:
            b = bytearray(good)
            b[r.randrange(len(b))] ^= 1 << r.randrange(8)                             # one damaged byte
            bad = bytes(b)
        elif c == 3:
            bad = b'\x80\x02K\x01K\x02R.'                                              # REDUCE on a non-callable
        elif c == 4:
            bad = b'\x80\x02}]K\x01s.'                                                 # unhashable dict key
        elif c == 5:
            bad = b'\x80\x02cno_such_module_xyz\nthing\n.'                             # missing module
        elif c == 6:
            bad = b'0.'                                                                # pop from an empty stack
        else:
            bad = b''
        data = zlib.compress(bad, 3)
        return struct.pack('i', len(data)) + data, None
    return None, False


def decodes(payload):
    try:
        return True, pickle.loads(zlib.decompress(payload))
    except Exception:
        return False, None


def run_reconnect_case(seed, i, r):
    """The same TcpConnection object is used for one connection after the other (as TCPTransport does for the connections it
    opens): the first one ends while only the beginning of a frame has arrived; what is sent on the second one has to be
    delivered completely and in order, and the second connection has to stay up."""
    install_virtual_time()
    CLK.reset()
    net = socksim.reset_net()
    socksim.install()
    bufsize = r.choice([16, 64, 512, 8192])
    res = {'runs': 1, 'violations': [], 'sit': {}, 'obs': {}, 'escaped': {}, 'inconclusive': None, 'nontrivial_fps': []}
    net.current = '10.0.0.1'
    lst = FakeSocket()
    lst.bind(('10.0.0.1', 4321))
    lst.listen(5)
    B = End('10.0.0.2')
    net.current = '10.0.0.2'
    B.poller = SimPoller()
    B.conn = TcpConnection(poller=B.poller, timeout=10 ** 9, sendBufferSize=bufsize, recvBufferSize=max(1, bufsize),
                           onMessageReceived=B.got.append, onDisconnected=lambda: setattr(B, 'disc', B.disc + 1))
    viol = None
    stats = collections.Counter()
    try:
        def connect_once():
            net.current = '10.0.0.2'
            B.conn.connect('10.0.0.1', 4321)
            cs = [x for x in socksim.live_socks() if x.host == '10.0.0.2' and x.state == 'connecting']
            socksim.complete_connect(cs[-1])
            srv = lst.backlog.popleft()
            net.current = '10.0.0.1'
            A = End('10.0.0.1')
            A.poller = SimPoller()
            A.conn = TcpConnection(poller=A.poller, socket=srv, timeout=10 ** 9, sendBufferSize=65536, recvBufferSize=65536)
            net.current = '10.0.0.2'
            B.poller.poll(0)
            return A, srv
        A1, srv1 = connect_once()
        if B.conn.state != CONNECTION_STATE.CONNECTED:
            res['inconclusive'] = 'first connect did not complete'
            return res
        # first connection: a big frame, of which only a part arrives before the peer closes
        big = os.urandom(r.choice([200, 3000, 40000]))
        frame = frame_of(big)
        net.current = '10.0.0.1'
        A1.conn.send(big)
        A1.poller.poll(0)
        k = r.choice([1, 3, 4, 5, 17, len(frame) // 2, len(frame) - 1])
        k = max(1, min(k, len(frame) - 1))
        B.conn._TcpConnection__socket.inbuf += frame[:k]
        del srv1.wire[:]
        net.current = '10.0.0.2'
        net.max_recv = r.choice([None, 1, 7])
        B.poller.poll(0)
        net.current = '10.0.0.1'
        A1.conn.disconnect()
        socksim.move_dying()
        cli = B.conn._TcpConnection__socket
        if cli is not None:
            cli.eof = True
        net.current = '10.0.0.2'
        for _ in range(5):
            B.poller.poll(0)
        if B.conn.state != CONNECTION_STATE.DISCONNECTED:
            res['inconclusive'] = 'first connection did not end'
            return res
        if B.got:
            raise V('misdelivery', 'a frame of which only %d of %d bytes arrived was delivered' % (k, len(frame)), mode='reconnect')
        # second connection on the same object
        disc_before = B.disc
        A2, srv2 = connect_once()
        nm = r.randrange(1, 10)
        msgs = [gen_msg(r, bufsize) for _ in range(nm)]
        for m in msgs:
            net.current = '10.0.0.1'
            A2.conn.send(m)
            for _ in range(200):
                A2.poller.poll(0)
                socksim.move(srv2, r.choice([1, 7, 64, None]))
                net.current = '10.0.0.2'
                net.max_recv = r.choice([None, 1, 5, 64])
                B.poller.poll(0)
                net.current = '10.0.0.1'
                if not A2.conn._TcpConnection__writeBuffer and not srv2.wire:
                    break
        net.current = '10.0.0.2'
        net.max_recv = None
        for _ in range(20):
            socksim.move(srv2)
            B.poller.poll(0)
        stats['reconnect_messages'] = nm
        if B.got != msgs:
            j = next((x for x in range(min(len(B.got), nm)) if B.got[x] != msgs[x]), min(len(B.got), nm))
            raise V('lost_or_changed', 'second connection of the same connection object: %d of %d messages delivered (first difference at %d) '
                    'after the first connection had ended with %d of %d bytes of a frame received' % (len(B.got), nm, j, k, len(frame)), mode='reconnect')
        if B.conn.state != CONNECTION_STATE.CONNECTED or B.disc != disc_before:
            raise V('spurious_disconnect', 'second connection of the same connection object was dropped although every frame on it was valid',
                    mode='reconnect')
    except V as v:
        viol = v
    except Exception as e:
        import traceback
        tb = traceback.extract_tb(e.__traceback__)
        loc = [f for f in tb if 'pysyncobj' in f.filename]
        if loc:
            viol = V('exception_escaped', '%s: %s escaped from %s:%s' % (type(e).__name__, e, os.path.basename(loc[-1].filename), loc[-1].name),
                     exc=type(e).__name__, corruption='reconnect')
        else:
            raise
    res['obs'] = dict(stats)
    res['obs']['cases_reconnect'] = 1
    res['nontrivial_fps'] = [h32('reconnect', bufsize, stats.get('reconnect_messages'))]
    if viol is not None:
        rec = {'prop': 'C13', 'kind': viol.kind, 'msg': viol.msg, 'facts': viol.facts}
        rec['replay'] = save_replay(seed, i, rec, {'mode': 'reconnect', 'bufsize': bufsize})
        res['violations'].append(rec)
    return res


def run_case(prop, tier, seed, i):
    rs = (h32('e4', seed) % 100000) * 100000 + i
    r = random.Random(rs)
    if i % 8 == 7:
        return run_reconnect_case(seed, i, r)
    install_virtual_time()
    CLK.reset()
    bufsize = r.choice([1, 3, 16, 64, 512, 8192])
    net, (A, B) = make_pair(bufsize)
    mode = 'clean' if i % 3 else 'corrupt'
    nmsgs = r.randrange(1, 14)
    msgs = [gen_msg(r, bufsize) for _ in range(nmsgs)]
    ckind = r.choice(['neg_plain', 'neg_wrap', 'neg_wrap', 'len_small', 'len_large', 'payload', 'payload', 'garbage', 'bad_pickle', 'bad_pickle']) if mode == 'corrupt' else None
    cidx = r.randrange(nmsgs) if mode == 'corrupt' else None
    stats = collections.Counter()
    sent = []
    stream = bytearray()       # what B should see (after corruption)
    expect_valid = []          # messages B must deliver, in order
    invalid_at = None          # index in expect_valid after which the stream is invalid
    res = {'runs': 1, 'violations': [], 'sit': {}, 'obs': {}, 'escaped': {}, 'inconclusive': None, 'nontrivial_fps': []}
    viol = None
    try:
        # A sends all messages while the adversary moves bytes; corruption is applied to the byte stream in flight:
        # the harness intercepts A's outgoing bytes (A.sock.wire) and rewrites frame cidx before forwarding.
        pending_out = bytearray()
        forwarded = 0
        frames = [frame_of(m) for m in msgs]
        sent_msgs = list(msgs)          # what A sends; `msgs` becomes what B has to deliver if a rewritten frame still decodes
        if mode == 'corrupt':
            new, invalid = corrupt(r, frames[cidx], ckind)
            if new is None:
                mode = 'clean'
            else:
                if invalid is None:
                    ok, val = decodes(new[4:])
                    invalid = not ok
                    if ok and val is None:
                        # decodes to None, which the parser cannot tell from "no complete frame yet" (the library never sends None)
                        new = frames[cidx]
                        val = msgs[cidx]
                    if ok and val != msgs[cidx]:
                        # a bit flip that still decodes to another value is not detectable by the framing layer
                        msgs = list(msgs)
                        msgs[cidx] = val
                cframes = list(frames)
                cframes[cidx] = new
        if mode == 'clean':
            cframes = frames
            invalid = False
        target = b''.join(cframes)
        if mode == 'corrupt' and invalid:
            expect_valid = msgs[:cidx]
            invalid_at = cidx
        elif mode == 'corrupt' and ckind == 'len_large':
            expect_valid = None        # subsequence semantics
        else:
            expect_valid = list(msgs)
        orig = b''.join(frames)
        # bytes leave A as `orig`; the network delivers `target` (same prefix up to the corrupted frame)
        to_send = list(sent_msgs)
        steps = 0
        a_out = 0            # bytes of orig taken from A.sock.wire
        delivered = 0        # bytes of target put into B.sock.inbuf
        while steps < 20000:
            steps += 1
            c = r.random()
            net.max_send = r.choice([None, None, 1, 2, 7, 64])
            net.max_recv = r.choice([None, None, 1, 2, 5, 64])
            if c < 0.25 and to_send:
                if r.random() < 0.2:
                    net.force_eagain = r.randrange(1, 3)
                net.current = 'A'
                A.conn.send(to_send.pop(0))
                stats['sends'] += 1
            elif c < 0.5:
                net.current = 'A'
                A.poller.poll(0)
            elif c < 0.75:
                # network: take bytes out of A's socket, deliver some of the (possibly rewritten) stream to B
                k = len(A.sock.wire)
                a_out += k
                del A.sock.wire[:k]
                avail = min(a_out, len(orig))
                # the part of target that corresponds to fully known original bytes: the corrupted frame is
                # released only when its original bytes have completely left A
                off_c0 = sum(len(f) for f in frames[:cidx]) if mode == 'corrupt' else None
                if mode == 'corrupt':
                    off_c1 = off_c0 + len(frames[cidx])
                    if avail < off_c0:
                        tavail = avail
                    elif avail < off_c1:
                        tavail = off_c0
                    else:
                        tavail = off_c0 + len(cframes[cidx]) + (avail - off_c1)
                else:
                    tavail = avail
                room = tavail - delivered
                if room > 0 and not B.sock.closed:
                    n = r.choice([1, 1, 2, 3, 8, room, room])
                    n = min(n, room)
                    B.sock.inbuf += target[delivered:delivered + n]
                    delivered += n
                    stats['chunks'] += 1
            else:
                net.current = 'B'
                B.poller.poll(0)
            check_prefix(B.got, expect_valid, msgs)
            if not to_send and a_out >= len(orig) and delivered >= len(target) and not A.conn._TcpConnection__writeBuffer and not B.sock.inbuf:
                break
            if B.conn.state == CONNECTION_STATE.DISCONNECTED:
                break
        # drain
        for _ in range(50):
            net.max_recv = None
            net.current = 'B'
            B.poller.poll(0)
        check_prefix(B.got, expect_valid, msgs)
        stats['delivered'] = len(B.got)
        if mode == 'clean' or (mode == 'corrupt' and not invalid and ckind != 'len_large'):
            if B.got != msgs:
                raise V('lost_or_changed', 'quiescent without invalid frame: %d of %d messages delivered (steps %d, %d of %d bytes forwarded, '
                        'first difference at message %d, receiver %s)'
                        % (len(B.got), len(msgs), steps, delivered, len(target),
                           next((k for k in range(min(len(B.got), len(msgs))) if B.got[k] != msgs[k]), min(len(B.got), len(msgs))),
                           'connected' if B.conn.state == CONNECTION_STATE.CONNECTED else 'disconnected')
                        + ' sender: %d bytes unsent, %d in its socket, %d of %d taken by the network, %d messages not yet sent'
                        % (len(A.conn._TcpConnection__writeBuffer), len(A.sock.wire), a_out, len(orig), len(to_send)), mode=mode)
            if B.conn.state != CONNECTION_STATE.CONNECTED or B.disc:
                raise V('spurious_disconnect', 'connection disconnected although every frame was valid', mode=mode)
        if mode == 'corrupt' and invalid:
            if delivered >= sum(len(f) for f in cframes[:cidx + 1]):
                # the invalid frame has completely arrived
                if B.conn.state != CONNECTION_STATE.DISCONNECTED:
                    raise V('invalid_frame_no_disconnect', 'frame with %s arrived completely, connection state is %r, %d messages delivered'
                            % (ckind, B.conn.state, len(B.got)), corruption=ckind)
                if B.disc != 1:
                    raise V('disconnect_callback_count', 'disconnect callback fired %d times' % B.disc, corruption=ckind)
                if B.got != msgs[:cidx]:
                    raise V('delivered_after_invalid', 'delivered %d messages, %d valid frames preceded the invalid one'
                            % (len(B.got), cidx), corruption=ckind)
    except V as v:
        viol = v
    except Exception as e:
        import traceback
        tb = traceback.extract_tb(e.__traceback__)
        loc = [f for f in tb if 'pysyncobj' in f.filename]
        if loc:
            viol = V('exception_escaped', '%s: %s escaped from %s:%s' % (type(e).__name__, e, os.path.basename(loc[-1].filename), loc[-1].name),
                     exc=type(e).__name__, corruption=ckind)
        else:
            raise
    stats.update(net.stats)
    res['obs'] = dict(stats)
    res['obs']['cases_' + (mode if mode == 'clean' else 'corrupt_' + str(ckind))] = 1
    res['nontrivial_fps'] = [h32(mode, ckind, bufsize, nmsgs, bool(net.stats.get('short_writes')), bool(net.stats.get('split_reads')))]
    if viol is not None:
        rec = {'prop': 'C13', 'kind': viol.kind, 'msg': viol.msg, 'facts': viol.facts}
        rec['replay'] = save_replay(seed, i, rec, {'bufsize': bufsize, 'mode': mode, 'corruption': ckind, 'nmsgs': nmsgs, 'cidx': cidx})
        res['violations'].append(rec)
    if i < 16:
        res['sample'] = {'bufsize': bufsize, 'mode': mode, 'corruption': ckind, 'message_sizes': [len(f) for f in frames], 'delivered': len(B.got)}
    return res


def check_prefix(got, expect_valid, msgs):
    if expect_valid is None:
        # subsequence of msgs
        j = 0
        for g in got:
            while j < len(msgs) and msgs[j] != g:
                j += 1
            if j == len(msgs):
                raise V('misdelivery', 'delivered message %r was never sent (or out of order)' % (repr(g)[:60],), mode='len_large')
            j += 1
        return
    if len(got) > len(expect_valid) or got != expect_valid[:len(got)]:
        k = 0
        while k < len(got) and k < len(expect_valid) and got[k] == expect_valid[k]:
            k += 1
        raise V('not_a_prefix', 'delivered sequence departs from the sent one at message %d (delivered %d, valid %d)'
                % (k, len(got), len(expect_valid)), twice=(k < len(got) and got[k] in got[:k]))


def cases(prop, tier, seed):
    return 24000 if tier == 'quick' else 400000


def save_replay(seed, i, rec, info):
    d = os.path.join(VERIF_DIR, 'replays')
    os.makedirs(d, exist_ok=True)
    path = os.path.join(d, 'C13-%d-%d.json' % (seed, i))
    with open(path, 'w') as f:
        json.dump({'property': 'C13', 'engine': 'rv.framefuzz', 'seed': seed, 'case': i, 'violation': rec, 'info': info}, f, indent=1, default=str)
    return path


def replay(prop, path):
    with open(path) as f:
        doc = json.load(f)
    res = run_case('C13', 'quick', doc['seed'], doc['case'])
    for v in res['violations']:
        print('replayed: C13/%s %s' % (v['kind'], v['msg']))
        print('REPLAYED ' + json.dumps(v, default=str))
        if v['kind'] == doc['violation']['kind']:
            print('VIOLATION property=C13 replay=%s' % path)
            return 1
    print('not reproduced')
    return 0
