"""C16: replicated locks on E1.  Every client is a real ReplLockManager attached to a node;
its auto-prolongation thread is real but cooperative: `time.sleep` inside
pysyncobj.batteries parks the thread until the adversary grants it one loop iteration,
so exactly one thread runs at any time and runs stay deterministic.  `time.time()` is the
common virtual clock (the property assumes agreeing client clocks)."""
import threading
import collections

from .common import CLK, Violation, h32
from .clustersim import Sim, EnterProc
from .monitors import Ext, FAIL_NAMES

import pysyncobj.batteries as B
from pysyncobj.syncobj import SyncObjException


class LockThreads(object):
    """Cooperative scheduler for the ReplLockManager threads: strict hand-over by semaphores."""

    def __init__(self):
        self.main_ident = threading.get_ident()
        self.recs = {}            # thread ident -> record
        self.main_sem = threading.Semaphore(0)
        self.stopping = False

    def park(self):
        ident = threading.get_ident()
        if ident == self.main_ident:
            return
        rec = self.recs.get(ident)
        if rec is None:
            rec = {'go': threading.Semaphore(0), 'parked': False, 'iters': 0}
            self.recs[ident] = rec
        rec['parked'] = True
        if self.stopping:
            return
        self.main_sem.release()
        rec['go'].acquire()
        rec['parked'] = False
        rec['iters'] += 1

    def wait_all_parked(self, n=None, timeout=10.0):
        """Called after a ReplLockManager was created: wait until its thread reached its first sleep."""
        return self.main_sem.acquire(timeout=timeout)

    def grant(self, ident):
        """Let one thread run one loop iteration (until it sleeps again)."""
        rec = self.recs.get(ident)
        if rec is None or not rec['parked']:
            return False
        rec['go'].release()
        return self.main_sem.acquire(timeout=10.0)

    def stop_all(self):
        self.stopping = True
        for rec in self.recs.values():
            rec['go'].release()


class LockMonitor(Ext):
    def __init__(self, mon, sim):
        Ext.__init__(self, mon)
        self.tries = []              # outstanding / finished tryAcquire attempts
        self.denied_since = {}       # client key -> virtual time since which no prolongation was granted
        self.told_failed = {}        # (client, lock) -> step at which the client was told it failed
        self.last_op = {}            # (client, lock) -> 'try' / 'rel': what the application called last

    def holders(self, lid):
        out = []
        for key, c in self.sim.clients.items():
            p = self.sim.procs.get(key)
            if p is None or p.dead:
                continue
            try:
                if c.isAcquired(lid):
                    out.append(key)
            except Exception:
                pass
        return out

    def own_release_pending(self, key, lid):
        """Is there, between the applied index of the node of this client and the committed end of the log, a release of
        this lock in this client's name?  (Then the client's belief rests on a replica that lags behind its own release.)"""
        import pysyncobj.pickle as PK
        sim = self.sim
        p = sim.procs.get(key)
        c = sim.clients.get(key)
        if p is None or c is None:
            return False
        cid = getattr(c, '_ReplLockManager__selfID', None)
        for pos in range(p.obj.raftLastApplied + 1, self.mon.maxc + 1):
            e = self.mon.committed.get(pos)
            if e is None or e[1][:1] != b'\x00':
                continue
            try:
                d = PK.loads(e[1][1:])
                args = list(d[1]) if isinstance(d, tuple) and len(d) > 1 else []
            except Exception:
                continue
            if len(args) == 2 and args[0] == lid and args[1] == cid:
                return True
        return False

    def after_step(self, p, action):
        sim = self.sim
        for lid in sim.lock_ids:
            h = self.holders(lid)
            self.mon.obs['exclusion_checks'] += 1
            if len(h) > 1:
                stale = [k for k in h if self.own_release_pending(k, lid)]
                gave_up = [k for k in h if self.last_op.get((k, lid)) == 'rel']
                raise Violation('C16', 'two_holders', 'lock %r is considered held by %r at t=%.3f%s%s' % (
                    lid, h, CLK.now, ('; the replica of %r has not yet applied a committed release issued in its own name' % stale) if stale else '',
                    ('; the last thing the client on %r did with this lock was to call release()' % gave_up) if gave_up else ''),
                    n=len(h), holder_has_not_applied_its_own_committed_release=bool(stale), a_holder_called_release_last=bool(gave_up))
            if h:
                self.mon.sit['lock_held'] += 1
        # a client that was told "failed" must not consider the lock its own afterwards (until it tries again)
        for (key, lid), (step, t) in list(self.told_failed.items()):
            if any(x['key'] == key and x['lock'] == lid and (x['res'] is None or x['res'][0]) and x['step'] >= step for x in self.tries):
                del self.told_failed[(key, lid)]      # a later attempt is pending or succeeded
                continue
            if sim.step - step > 0 and key in self.holders(lid):
                # allow the release it issued to commit: bounded by the auto unlock time
                if CLK.now - t > sim.auto_unlock + 1.0:
                    raise Violation('C16', 'keeps_lock_after_failed_report',
                                    'client on %s was told its acquisition of %r failed at t=%.3f but still considers it held at t=%.3f'
                                    % (key, lid, t, CLK.now))


class LockSim(Sim):
    def __init__(self, cfg, seed):
        cfg = dict(cfg)
        cfg['consumers'] = []
        Sim.__init__(self, cfg, seed)
        self.auto_unlock = cfg.get('auto_unlock', 4.0)
        self.lock_ids = ['L%d' % i for i in range(cfg.get('n_locks', 2))]
        self.clients = {}            # proc key -> ReplLockManager
        self.client_thread = {}      # proc key -> thread ident
        self.lockthreads = LockThreads()
        self.lm = LockMonitor(self.mon, self)
        self.mon.ext.append(self.lm)
        self.weights['lock'] = cfg.get('w_lock', 4.0)
        self.weights['grant'] = cfg.get('w_grant', 12.0)
        self.starved = set()

    def make_consumers(self, for_model=False):
        if for_model:
            return [B._ReplLockManagerImpl(self.cfg.get('auto_unlock', 4.0))]
        before = set(self.lockthreads.recs)
        m = B.ReplLockManager(self.cfg.get('auto_unlock', 4.0), selfID='client-%d' % (len(self.clients) + 1))
        self.lockthreads.wait_all_parked(len(before) + 1)
        new = [i for i in self.lockthreads.recs if i not in before]
        self._last_manager = (m, new[0] if new else None)
        return [m]

    def start_proc(self, key, addr, others, inc=0, first_tick=True):
        p = Sim.start_proc(self, key, addr, others, inc=inc, first_tick=first_tick)
        m, ident = self._last_manager
        for k in [k for k in self.lm.last_op if k[0] == key]:
            del self.lm.last_op[k]         # (a new process, a new client)
        self.clients[key] = m
        self.client_thread[key] = ident
        return p

    def gen_ext(self, kind):
        rng = self.rng
        live = [p for p in self.live() if p.key in self.clients]
        if not live:
            return None
        if kind == 'lock':
            p = rng.choice(live)
            lid = rng.choice(self.lock_ids)
            c = rng.random()
            if c < 0.55:
                # (one in ten is the blocking form whose timeout expires before the reply: the caller gets an exception)
                return ('L', 'try_sync' if self.cfg.get('sync_calls', False) and rng.random() < 0.1 else 'try', p.key, lid)
            if c < 0.85:
                return ('L', 'rel_sync' if self.cfg.get('sync_calls', False) and rng.random() < 0.25 else 'rel', p.key, lid)
            if c < 0.93:
                return ('L', 'starve', p.key)
            return ('L', 'feed', p.key)
        if kind == 'grant':
            cands = [p for p in live if p.key not in self.starved]
            if not cands:
                return None
            return ('L', 'grant', rng.choice(cands).key)
        return Sim.gen_ext(self, kind)

    def act_ext(self, a):
        if a[0] != 'L':
            return Sim.act_ext(self, a)
        what, key = a[1], a[2]
        p = self.procs.get(key)
        if p is None or p.dead or key not in self.clients:
            return None
        c = self.clients[key]
        if what == 'grant':
            ident = self.client_thread.get(key)
            with EnterProc(p):
                ok = self.lockthreads.grant(ident)
            self.stats['grants'] += 1
            if not ok:
                self.inconclusive = 'lock thread did not park again'
            return p
        if what == 'starve':
            self.starved.add(key)
            self.lm.denied_since[key] = CLK.now
            self.mon.sit['holder_stops_prolonging'] += 1
            return None
        if what == 'feed':
            self.starved.discard(key)
            self.lm.denied_since.pop(key, None)
            return None
        lid = a[3]
        if what == 'try':
            rec = {'key': key, 'lock': lid, 't': CLK.now, 'step': self.step, 'res': None}
            self.lm.tries.append(rec)
            self.lm.last_op[(key, lid)] = 'try'
            self.lm.told_failed.pop((key, lid), None)

            def cb(res, err, rec=rec):
                if p.dead:
                    return
                if rec['res'] is not None:
                    raise Violation('C16', 'try_callback_twice', 'tryAcquire callback fired twice for %r on %s' % (rec['lock'], rec['key']))
                rec['res'] = (res, err, CLK.now)
                late = CLK.now - rec['t'] > self.auto_unlock / 2.0
                self.mon.obs['try_results'] += 1
                if res:
                    self.mon.sit['lock_acquired'] += 1
                if late:
                    self.mon.sit['late_acquisition_reply'] += 1
                    if res:
                        raise Violation('C16', 'late_acquisition_reported_true',
                                        'tryAcquire(%r) on %s took %.3fs (> autoUnlockTime/2 = %.3f) and was still reported as acquired'
                                        % (rec['lock'], rec['key'], CLK.now - rec['t'], self.auto_unlock / 2.0))
                if res and not late and err == 0 and rec['lock'] not in getattr(c, '_ReplLockManager__releasing', {}):
                    # told "acquired" (in time, and no release of ours has been issued since): this node has just applied
                    # that acquisition, so its replica of the lock table has to list this client as the holder
                    impl = getattr(c, '_ReplLockManager__lockImpl')
                    impl = getattr(impl, '_impl', impl)
                    tab = getattr(impl, '_ReplLockManagerImpl__locks', {})
                    holder = tab.get(rec['lock'])
                    self.mon.obs['grant_vs_table_checks'] += 1
                    if holder is None or holder[0] != getattr(c, '_ReplLockManager__selfID', None):
                        raise Violation('C16', 'told_acquired_but_not_holder', 'tryAcquire(%r) on %s was answered with True, but the lock table of '
                                        'that node lists %r as the holder' % (rec['lock'], rec['key'], holder[0] if holder else None))
                mine = [t for t in self.lm.tries if t['key'] == rec['key'] and t['lock'] == rec['lock']]
                if res:
                    self.lm.told_failed.pop((rec['key'], rec['lock']), None)
                elif all(t['res'] is not None and not t['res'][0] for t in mine):
                    # told "failed", and no other attempt of this client for this lock is pending or succeeded
                    self.lm.told_failed[(rec['key'], rec['lock'])] = (self.step, CLK.now)
            self.run_node(p, lambda: c.tryAcquire(lid, callback=cb))
            self.stats['try'] += 1
            return p
        if what == 'try_sync':
            # tryAcquire(sync=True) whose timeout is over before the reply: it raises, the caller does not have the lock
            rec = {'key': key, 'lock': lid, 't': CLK.now, 'step': self.step, 'res': None}
            self.lm.tries.append(rec)
            self.lm.last_op[(key, lid)] = 'try'
            self.lm.told_failed.pop((key, lid), None)

            def blocking_try():
                try:
                    got = c.tryAcquire(lid, sync=True, timeout=0.0)
                except SyncObjException as e:
                    got = False
                    self.mon.sit['blocking_try_raised'] += 1
                rec['res'] = (bool(got), 'sync', CLK.now)
                if got:
                    raise Violation('C16', 'told_acquired_but_not_holder', 'tryAcquire(%r, sync=True, timeout=0) on %s returned True at once'
                                    % (lid, key))
                mine = [t for t in self.lm.tries if t['key'] == key and t['lock'] == lid]
                if all(t['res'] is not None and not t['res'][0] for t in mine):
                    self.lm.told_failed[(key, lid)] = (self.step, CLK.now)
            self.run_node(p, blocking_try)
            self.stats['try_sync'] += 1
            return p
        if what in ('rel', 'rel_sync'):
            before = {l: self.lm.holders(l) for l in self.lock_ids}
            mine = key in before.get(lid, [])
            self.lm.last_op[(key, lid)] = 'rel'
            if what == 'rel':
                self.run_node(p, lambda: c.release(lid))
            else:
                # release(sync=True) whose timeout is over before the reply: it raises, the request is on its way nevertheless
                def blocking_release():
                    try:
                        c.release(lid, sync=True, timeout=0.0)
                    except SyncObjException:
                        self.mon.sit['blocking_release_raised'] += 1
                self.run_node(p, blocking_release)
                self.stats['release_sync'] += 1
            self.stats['release'] += 1
            if not mine:
                self.mon.sit['release_by_non_holder'] += 1
                self.pending_foreign_release = (key, lid, before, self.step)
            return p
        return None

    def teardown(self):
        try:
            for c in self.clients.values():
                c.destroy()
            self.lockthreads.stop_all()
        finally:
            Sim.teardown(self)

    def quiet_phase(self):
        # faults stop, everybody is fed again; the lock threads keep the log growing, so instead of the C05
        # convergence test: a few seconds of fair regime, then the displacement scenario of the property
        self.phase = 'quiet'
        self.starved.clear()
        if self.blocked:
            self.one_step(('H',))
        self.quiet_prepare()
        t0 = CLK.now
        while CLK.now - t0 < 6 * self.cfg.get('raft_max', 1.4):
            self.fair_round()
        if not any(p.voter and p.obj._isLeader() for p in self.live()):
            self.inconclusive = 'no leader for the displacement scenario'
            self.phase = 'done'
            return
        self.displacement_check()
        self.phase = 'done'

    def fair_round(self, dt=0.02):
        for key in sorted(self.clients):
            p = self.procs.get(key)
            if p is not None and not p.dead and key not in self.starved:
                self.one_step(('L', 'grant', key))
        Sim.fair_round(self, dt)

    def displacement_check(self):
        """A lock whose holder stops prolonging becomes obtainable after the auto-unlock time."""
        live = [p for p in self.live() if p.key in self.clients]
        if len(live) < 2:
            return
        rng = self.rng
        holder, other = rng.sample(live, 2)
        lid = self.lock_ids[0]
        # make `holder` hold the lock (release whatever is held first by letting locks expire)
        free_since = None
        for _ in range(int((self.auto_unlock * 4.0) / 0.02) + 10):
            self.fair_round()
            if not self.lm.holders(lid):
                if free_since is None:
                    free_since = CLK.now
                elif CLK.now - free_since >= self.auto_unlock * 1.5:
                    break
            else:
                free_since = None
        self.one_step(('L', 'try', holder.key, lid))
        rec = self.lm.tries[-1]
        for _ in range(400):
            self.fair_round()
            if rec['res'] is not None:
                break
        if rec['res'] is not None and rec['res'][0] is False and rec['res'][1] == 0 and not self.lm.holders(lid):
            # no client has considered the lock its own for 1.5 auto-unlock times of healthy network and nobody else is
            # trying, yet the replicated table refuses it: it is held in the name of a client that does not hold it
            raise Violation('C16', 'not_obtainable', 'lock %r is refused to %s although no client has considered it held for %.1fs '
                            '(auto unlock %.1fs): the replicated table keeps it for somebody who was told he does not hold it'
                            % (lid, holder.key, self.auto_unlock * 1.5, self.auto_unlock), phantom_holder=True)
        if rec['res'] is None or not rec['res'][0]:
            self.mon.obs['displacement_setup_failed'] += 1
            return
        self.one_step(('L', 'starve', holder.key))
        t0 = CLK.now
        while CLK.now - t0 < self.auto_unlock + 0.6:
            self.fair_round()
        self.one_step(('L', 'try', other.key, lid))
        rec2 = self.lm.tries[-1]
        for _ in range(600):
            self.fair_round()
            if rec2['res'] is not None:
                break
        self.mon.sit['displacement_attempted'] += 1
        if rec2['res'] is None:
            raise Violation('C16', 'not_obtainable', 'tryAcquire by %s got no reply after the holder %s had stopped prolonging for %.1fs'
                            % (other.key, holder.key, CLK.now - t0))
        if not rec2['res'][0]:
            raise Violation('C16', 'not_obtainable', 'lock %r still refused to %s %.1fs after its holder %s stopped prolonging (auto unlock %.1fs)'
                            % (lid, other.key, CLK.now - t0, holder.key, self.auto_unlock))
        self.mon.sit['displaced_after_expiry'] += 1


# ---------------------------------------------------------------------------------------------
# direct mode: the replicated lock table against a reference written from the property statement


def direct_case(r):
    """Random acquire / prolongate / release / isAcquired sequences with non-decreasing times on
    _ReplLockManagerImpl, compared with a small reference table."""
    U = r.choice([1.0, 4.0, 10.0])
    impl = B._ReplLockManagerImpl(U)
    ref = {}       # lock -> (client, time)
    t = 100.0
    clients = ['a', 'b', 'c']
    locks = ['x', 'y']
    n = 0
    for _ in range(r.randrange(5, 80)):
        t += r.choice([0.0, 0.1, U / 4.0, U / 2.0, U, U * 1.01, 2 * U]) * r.random()
        c = r.choice(clients)
        l = r.choice(locks)
        op = r.random()
        n += 1
        if op < 0.35:
            got = impl.acquire(l, c, t, _doApply=True)
            cur = ref.get(l)
            if cur is not None and t - cur[1] > U:
                cur = None
            if cur is None or cur[0] == c:
                ref[l] = (c, t)
                exp = True
            else:
                exp = False
            if bool(got) != exp:
                return 'acquire(%r, %r, t=%.2f) -> %r, reference %r (table %r, U=%.1f)' % (l, c, t, got, exp, ref, U), n
        elif op < 0.55:
            impl.prolongate(c, t, _doApply=True)
            for k in list(ref):
                if t - ref[k][1] > U:
                    del ref[k]
                elif ref[k][0] == c:
                    ref[k] = (c, t)
        elif op < 0.75:
            before = dict(ref)
            impl.release(l, c, _doApply=True)
            if l in ref and ref[l][0] == c:
                del ref[l]
            # releasing a lock one does not hold has no effect: checked through the isAcquired comparison below
        for cc in clients:
            for ll in locks:
                got = impl.isAcquired(ll, cc, t)
                exp = ll in ref and ref[ll][0] == cc and t - ref[ll][1] < U
                if bool(got) != exp:
                    return 'isAcquired(%r, %r, t=%.2f) -> %r, reference %r (table %r, U=%.1f)' % (ll, cc, t, got, exp, ref, U), n
    return None, n


def direct_delay_case(r):
    """Requests that are delayed on their way (a prolongation forwarded by a follower and committed after a newer one), and a
    holder whose node lags behind: the lock table as the up-to-date replica has it (all n commands applied) against the
    table of a replica that has applied a prefix k <= n, under one clock.  Only acquisitions (never delayed, so every
    grant is confirmed in time) and prolongations: a client that is listed as the holder by the replica of its node, with
    a time younger than the auto-unlock time, considers the lock its own - no other client may be in that position on
    the up-to-date replica at the same instant."""
    U = r.choice([1.0, 4.0, 10.0])
    impl = B._ReplLockManagerImpl(U)
    clients = ['a', 'b', 'c']
    locks = ['x', 'y'][:r.choice([1, 2])]
    t = 100.0
    cmds = []
    for _ in range(r.randrange(6, 40)):
        t += r.choice([0.05, 0.2, U / 4.0, U / 3.0, U / 2.0]) * r.random()
        c = r.choice(clients)
        if r.random() < 0.4:
            cmds.append(('acq', r.choice(locks), c, t))
        else:
            cmds.append(('pro', c, t))
    order = list(cmds)
    for _ in range(r.randrange(0, 4)):
        idx = [i for i, c in enumerate(order) if c[0] == 'pro']
        if not idx:
            break
        i = r.choice(idx)
        c = order.pop(i)
        order.insert(min(len(order), i + r.randrange(1, 8)), c)
    snaps = [{}]
    now = 0.0
    n = 0
    for c in order:
        n += 1
        if c[0] == 'acq':
            impl.acquire(c[1], c[2], c[3], _doApply=True)
        else:
            impl.prolongate(c[1], c[2], _doApply=True)
        now = max(now, c[-1])
        tab = dict(getattr(impl, '_ReplLockManagerImpl__locks'))
        snaps.append(tab)
        for l in locks:
            top = tab.get(l)
            if top is None or not now - top[1] < U:
                continue
            for k in range(max(0, n - 10), n):
                old = snaps[k].get(l)
                if old is not None and old[0] != top[0] and now - old[1] < U:
                    return ('at t=%.2f (auto unlock %.1f) the up-to-date table lists %r as holder of %r (time %.2f) while a replica %d commands '
                            'behind lists %r with time %.2f, still valid: both consider it their own.  Commands in commit order: %r'
                            % (now, U, top[0], l, top[1], n - k, old[0], old[1], [(x[0],) + tuple(x[1:-1]) + (round(x[-1], 2),) for x in order[:n]])), n
    return None, n
