"""Property specific monitors plugged into Monitors.ext (C06, C09, C11, C12)."""
import os
import gzip
import pickle as _pickle
import collections

from .common import CLK, Violation, h32
from .monitors import Ext, cmd_type, REGULAR, full_digest


class RecoveryMonitor(Ext):
    """C06: a journaled node restarts without forgetting what it vouched for."""

    def __init__(self, mon):
        Ext.__init__(self, mon)
        self.ack_hw = {}            # key -> highest index acknowledged with success / counted as leader
        self.dead_info = {}         # key -> info captured at the kill
        self.pending = {}           # new proc -> info (checked after its first tick)

    def on_send(self, p, dest, conn, msg):
        if isinstance(msg, dict) and msg.get('type') == 'next_node_idx' and msg.get('success'):
            k = msg['next_node_idx'] - 1
            if k > self.ack_hw.get(p.key, 0):
                self.ack_hw[p.key] = k

    def after_step(self, p, action):
        if p.voter and not p.dead and p.obj._isLeader():
            c = p.obj.raftCommitIndex
            if c > self.ack_hw.get(p.key, 0):
                self.ack_hw[p.key] = c
        info = self.pending.get(p)
        if info is not None and action[0] == 'T':
            del self.pending[p]
            if not p.dead:
                self.check_recovered(p, info)

    def on_kill(self, p):
        try:
            # the step in which it was killed: a leader that advanced its commit index before the kill instant has counted
            # itself for those entries (the new commit index may already be on the wire)
            if p.voter and p.obj._isLeader() and p.obj.raftCommitIndex > self.ack_hw.get(p.key, 0):
                self.ack_hw[p.key] = p.obj.raftCommitIndex
        except Exception:
            pass
        hw = self.ack_hw.get(p.key, 0)
        j = p.journal
        vouched = [(e[1], e[2]) for e in j.mirror if e[1] <= hw]
        if getattr(p, 'journal_op', None) == 'cut' and getattr(p, 'journal_cut_from', None) is not None:
            # killed inside a conflict truncation: the entries being cut are (legitimately) on their way out
            vouched = [v for v in vouched if v[0] < p.journal_cut_from]
        owed = self.pending.pop(p, None)
        if owed is not None:
            # killed again before its recovery was judged (inside its first tick): what the previous incarnation had vouched
            # for is still owed - the journal of this one may be in the middle of being rewritten
            have = set(v[0] for v in vouched)
            cut = p.journal_cut_from if getattr(p, 'journal_op', None) == 'cut' and getattr(p, 'journal_cut_from', None) is not None else None
            vouched = sorted(set(vouched) | set(v for v in owed['vouched'] if v[0] not in have and (cut is None or v[0] < cut)))
            self.mon.sit['killed_again_before_recovery_was_judged'] += 1
        self.dead_info[p.key] = {
            'vouched': vouched, 'first': j.first_idx(), 'last': j.last_idx(), 'applied': p.last_applied,
            # (the earliest interrupted journal operation is the one that explains a loss)
            'journal_op': (owed or {}).get('journal_op') or getattr(p, 'journal_op', None),
            'kill_point': (owed or {}).get('kill_point') or getattr(p, 'killed_at', None),
            'has_dump': bool(p.conf.fullDumpFile),
        }
        self.mon.sit['kill_' + ('inside_' + str(p.journal_op) if p.journal_op else 'between_journal_ops')] += 1

    def on_restart(self, old, new):
        info = self.dead_info.get(new.key)
        if info is None:
            return
        self.pending[new] = info
        cv = self.mon.commit_values.get(new.key, set()) | {1}
        ci = new.obj.raftCommitIndex
        self.mon.obs['restart_commit_index_checked'] += 1
        if ci not in cv:
            raise Violation('C06', 'commit_index_invented', '%r starts with stored commit index %d that was never set' % (new, ci))

    def check_recovered(self, p, info):
        j = p.journal
        loaded = None
        for e in p.events:
            if e[0] == 'load' and e[1] is not None:
                loaded = e[1]
        self.mon.obs['restart_recovery_checks'] += 1
        f = j.first_idx()
        if loaded is None and f is not None and f > 1:
            raise Violation('C06', 'restart_cannot_rebuild_state',
                            '%r restarted with a journal that starts at index %d and no snapshot to load: positions below can never be applied'
                            % (p, f), has_dump=info['has_dump'], journal_op=info['journal_op'])
        lost = []
        for (idx, term) in info['vouched']:
            e = j.entry(idx)
            if e is not None and e[2] == term:
                continue
            if loaded is not None and idx <= loaded:
                continue
            lost.append((idx, term))
        if lost:
            raise Violation('C06', 'acked_entry_lost',
                            '%r lost %d log entries it had acknowledged (first %r, last %r); journal now %r..%r, snapshot loaded at %r; '
                            'before the kill %r..%r' % (p, len(lost), lost[0], lost[-1], f, j.last_idx(), loaded, info['first'], info['last']),
                            journal_op=info['journal_op'], kill_point=(info['kill_point'] or 'between_steps').split('.before')[0].split('.after')[0],
                            has_dump=info['has_dump'])
        if info['journal_op']:
            self.mon.sit['restart_after_kill_inside_journal_op'] += 1
        if loaded is not None:
            self.mon.sit['restart_loaded_dump'] += 1


class SnapshotMonitor(Ext):
    """C09: snapshots capture exactly the state at their position; dump files are never torn."""

    def __init__(self, mon):
        Ext.__init__(self, mon)
        self.sha_ok = set()
        self.pos_of = {}

    def on_serialize(self, p, data, id):
        # called right before Serializer.serialize: `data` is what will be written
        try:
            state, last, prev, cluster = data
        except Exception:
            return
        k = last[1]
        self.mon.obs['snapshots_taken'] += 1
        if state is None:
            return
        self.check_state(p, state, k, 'taken')
        if k != p.obj.raftLastApplied:
            raise Violation('C09', 'snapshot_position_wrong', '%r snapshots position %d while its applied index is %d' % (p, k, p.obj.raftLastApplied))
        members = set(n.id for n in cluster if n is not None)
        exp = self.mon.members_at(p, k) if hasattr(self.mon, 'members_at') else None
        # a node never drops itself from its own member set (a removed node that is still running keeps
        # listing itself): compare modulo the snapshotting node
        if exp is not None and (members - {p.key}) != (exp - {p.key}):
            raise Violation('C09', 'snapshot_cluster_wrong', '%r snapshot at %d stores members %r, the log prefix defines %r'
                            % (p, k, sorted(members), sorted(exp)))

    def check_state(self, p, state, k, when):
        mon = self.mon
        if mon.model_broken is not None and k >= mon.model_broken:
            return
        mf = mon.model_full_at(k)
        if mf is None:
            return
        if p.consumers:
            selfd, cons = state[0], state[1:]
        else:
            selfd, cons = state, []
        d = selfd.get('d')
        if d is None:
            raise Violation('C09', 'snapshot_incomplete', '%r snapshot at %d lacks the object state' % (p, k), when=when)
        if len(cons) != len(p.consumers):
            raise Violation('C09', 'snapshot_incomplete', '%r snapshot at %d holds %d consumer states, the node has %d consumers'
                            % (p, k, len(cons), len(p.consumers)), when=when)
        from .clustersim import canon_value
        got = h32(canon_value(d), [canon_value(c) for c in cons])
        self.mon.obs['snapshot_state_checks'] += 1
        if got != mf[0]:
            raise Violation('C09', 'snapshot_state_differs', '%r snapshot %s at position %d does not equal the replay of the log up to %d'
                            % (p, when, k, k), when=when)
        ver = selfd.get('_SyncObj__enabledCodeVersion')
        expv = self.mon.version_at(k) if hasattr(self.mon, 'version_at') else None
        if expv is not None and ver is not None and ver != expv:
            raise Violation('C09', 'snapshot_version_wrong', '%r snapshot at %d stores enabled version %r, log prefix defines %r' % (p, k, ver, expv))
        if expv and ver is None:
            raise Violation('C09', 'snapshot_version_wrong', '%r snapshot at %d does not store the enabled code version, the log prefix defines %r'
                            % (p, k, expv), missing=True)

    def check_dump_file(self, p, where):
        f = p.conf.fullDumpFile
        if not f or not os.path.isfile(f):
            return
        self.mon.obs['dump_file_checks'] += 1
        try:
            with open(f, 'rb') as fh:
                raw = fh.read()
            key = h32(raw[:64], len(raw), raw[-64:])
            if key in self.sha_ok:
                if key in self.pos_of:
                    self.check_dump_covers_log(p, self.pos_of[key], where)
                return
            data = _pickle.loads(gzip.decompress(raw))
            state, last = data[0], data[1]
        except Exception as e:
            raise Violation('C09', 'dump_file_torn', '%r: dump file on disk does not decode (%s: %s) %s' % (p, type(e).__name__, e, where),
                            where=where.split(' ')[0])
        if state is not None:
            self.check_state(p, state, last[1], 'on disk')
        self.sha_ok.add(key)
        self.pos_of[key] = last[1]
        self.check_dump_covers_log(p, last[1], where)

    def check_dump_covers_log(self, p, k, where):
        """The dump file restores the node (and serves followers that are behind the node's log) only together with the log
        entries after its position: a dump that ends before the log begins leaves the positions in between nowhere."""
        if p.dead or not where.startswith('after step'):
            return
        f = p.journal.first_idx()
        self.mon.obs['dump_vs_log_checks'] += 1
        if f is not None and f > k + 1:
            raise Violation('C09', 'dump_older_than_log', '%r: the dump file holds the state at position %d, the log of the node starts at %d: '
                            'positions %d..%d are in neither (the node can not be restarted from them, and serves this file to followers)'
                            % (p, k, f, k + 1, f - 1), gap=f - k - 1)

    def after_step(self, p, action):
        if p.conf.fullDumpFile:
            v = getattr(p, 'dump_version', 1)
            if v != getattr(p, '_dump_checked', 0) or getattr(p, 'dump_written_in_place', False):
                p._dump_checked = v
                self.check_dump_file(p, 'after step')

    def on_kill(self, p):
        pass

    def on_restart(self, old, new):
        if new.conf.fullDumpFile:
            self.check_dump_file(new, 'at restart after kill at %s' % (getattr(old, 'killed_at', None) or 'step boundary'))

    def on_chunk_in(self, p, data, done):
        if done:
            self.mon.sit['snapshot_received_completely'] += 1


class ArgsMonitor(Ext):
    """C11: every replica executes each command exactly once with equal arguments, nothing raises."""

    def __init__(self, mon):
        Ext.__init__(self, mon)
        self.digest = {}              # uid -> digest of submitted args
        self.applied = collections.Counter()   # (proc key, inc, uid) -> count

    def on_submit(self, p, sub):
        from .clustersim import canon_value
        self.digest[sub['uid']] = h32(canon_value(tuple(sub['args'])), canon_value(sub['kwargs']))

    def on_escaped(self, p, sig, exc):
        raise Violation('C11', 'exception_escaped', '%r: %s %r escaped a step on a healthy network' % (p, sig, str(exc)[:120]),
                        where=sig.split('@')[-1], exc=sig.split('@')[0])

    def after_step(self, p, action):
        for e in p.events:
            if e[0] != 'apply':
                continue
            _, pos, fid, args, kw, out = e
            uid = None
            try:
                uid = args[1][0]
            except Exception:
                pass
            if uid not in self.digest:
                continue
            self.applied[(p.key, p.inc, uid)] += 1
            self.mon.obs['c11_applies'] += 1
            if self.applied[(p.key, p.inc, uid)] > 1:
                raise Violation('C11', 'applied_twice', '%r executed uid %d twice' % (p, uid))
            if h32(args, kw) != self.digest[uid] and h32(args[1], kw) != self.digest[uid]:
                # args are canonical ('T', (...)) forms; compare on the same form
                from .clustersim import canon_value
                sub = self.sim.subs[uid]
                if args != canon_value(tuple(sub['args'])) or kw != canon_value(sub['kwargs']):
                    raise Violation('C11', 'arguments_differ', '%r executed uid %d with arguments different from the submitted ones' % (p, uid))
