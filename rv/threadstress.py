"""E6 (C19): real threads against the real auto-tick thread, real time, real loopback sockets.

N caller threads x M calls on one node of a 1-node or 3-node cluster, mixing
fire-and-forget, callback and sync calls (with and without timeout), small and large
queue limits, batched and unbatched (pipe notifier) mode.  sys.monitoring LINE events
on the hand-over code (command queue, pipe notifier, apply loop, replicated wrapper,
AsyncResult) inject yields / short sleeps to manufacture preemptions where threads hand
over to each other.

Oracle (unique id per call): every id is applied at most once per node and at the same
position on all nodes; a call reported failed with QUEUE_FULL / MISSING_LEADER / ... is
never applied; each callback fires exactly once; a sync call returns the value its own
command returned on the local node, or raises SyncObjException carrying a fail reason or
'Timeout'; any other exception leaving a user call is a violation.  Calls that timed out
stay open (they may still apply, once).
"""
import os
import sys
import json
import time
import socket
import random
import threading
import collections

from .common import bootstrap, h32, VERIF_DIR

bootstrap()
import pysyncobj.syncobj as S                   # noqa: E402
from pysyncobj import SyncObj, SyncObjConf, replicated, SyncObjException, FAIL_REASON   # noqa: E402
import pysyncobj.fast_queue as FQ               # noqa: E402
try:
    import pysyncobj.pipe_notifier as PN        # noqa: E402
except Exception:
    PN = None

NEVER_APPLIED = (FAIL_REASON.QUEUE_FULL, FAIL_REASON.MISSING_LEADER, FAIL_REASON.NOT_LEADER, FAIL_REASON.REQUEST_DENIED, FAIL_REASON.DISCARDED)


class Ctx(object):
    def __init__(self):
        self.lock = threading.Lock()
        self.applied = collections.defaultdict(list)     # node name -> [(pos, uid)]
        self.order = []                                   # global event order (for the interleaving signature)


CTX = None


class TS(SyncObj):
    def __init__(self, me, others, conf, name):
        SyncObj.__init__(self, me, others, conf=conf)
        self._vname = name

    @replicated
    def op(self, uid):
        pos = self.raftLastApplied + 1
        c = CTX
        if c is not None:
            with c.lock:
                c.applied[self._SyncObj__selfNode.id].append((pos, uid))
                c.order.append(('a', uid % 1000))
        if uid % 13 == 6:
            # a replicated method that raises when it is executed: its caller gets no result (least of all another call's)
            raise ValueError('application error in call %d' % uid)
        return (uid, pos)


def free_ports(n):
    socks = []
    ports = []
    for _ in range(n):
        s = socket.socket()
        s.bind(('127.0.0.1', 0))
        ports.append(s.getsockname()[1])
        socks.append(s)
    for s in socks:
        s.close()
    return ports


class Yielder(object):
    TOOL = 3

    def __init__(self, rate, seed):
        self.rate = rate
        self.seed = seed
        self.count = 0
        self.local = threading.local()
        self.active = False

    def codes(self):
        out = []

        def add(f):
            f = getattr(f, '__func__', f)
            c = getattr(f, '__code__', None)
            if c is not None:
                out.append(c)
        add(SyncObj._applyCommand)
        add(SyncObj._checkCommandsToApply)
        add(getattr(SyncObj, '_SyncObj__applyLogEntries', None))
        add(SyncObj.addOnTickCallback)
        add(SyncObj.removeOnTickCallback)
        add(S.AsyncResult.onResult)
        add(FQ.FastQueue.put_nowait)
        add(FQ.FastQueue.get_nowait)
        add(TS.op)                       # the `replicated` wrapper
        if PN is not None:
            add(PN.PipeNotifier.notify)
            add(getattr(PN.PipeNotifier, '_PipeNotifier__onNewNotification', None))
        return out

    def cb(self, code, line):
        r = getattr(self.local, 'r', None)
        if r is None:
            r = self.local.r = random.Random(h32(self.seed, threading.get_ident() % 9973))
        x = r.random()
        if x < self.rate:
            self.count += 1
            if x < self.rate * 0.7:
                time.sleep(0)
            else:
                time.sleep(r.uniform(5e-5, 5e-4))

    def start(self):
        m = sys.monitoring
        try:
            m.use_tool_id(self.TOOL, 'verif-yield')
        except ValueError:
            pass
        m.register_callback(self.TOOL, m.events.LINE, self.cb)
        self.installed = []
        for c in self.codes():
            try:
                m.set_local_events(self.TOOL, c, m.events.LINE)
                self.installed.append(c)
            except Exception:
                pass
        self.active = True

    def stop(self):
        m = sys.monitoring
        for c in getattr(self, 'installed', []):
            try:
                m.set_local_events(self.TOOL, c, 0)
            except Exception:
                pass
        try:
            m.register_callback(self.TOOL, m.events.LINE, None)
            m.free_tool_id(self.TOOL)
        except Exception:
            pass
        self.active = False


def run_case(prop, tier, seed, i):
    global CTX
    rs = (h32('e6', seed) % 100000) * 100000 + i
    r = random.Random(rs)
    mode = 'three' if i % 5 == 4 else 'single'
    flood = (i % 7 == 3)
    nthreads = r.choice([2, 4, 8, 16])
    ncalls = r.choice([30, 100, 300]) if not flood else 6000
    use_batch = r.random() < 0.5 if not flood else False
    qsize = r.choice([0, 1, 5, 100000]) if not flood else 10 ** 6
    yrate = r.choice([0.0, 0.01, 0.02, 0.05]) if not flood else 0.0
    CTX = ctx = Ctx()
    n = 3 if mode == 'three' else 1
    ports = free_ports(n)
    addrs = ['127.0.0.1:%d' % p for p in ports]
    objs = []
    res = {'runs': 1, 'violations': [], 'sit': {}, 'obs': collections.Counter(), 'escaped': {}, 'inconclusive': None, 'nontrivial_fps': []}
    viol = []

    def V(kind, msg, **facts):
        viol.append({'prop': 'C19', 'kind': kind, 'msg': msg, 'facts': facts})

    y = Yielder(yrate, rs)
    try:
        for k, a in enumerate(addrs):
            conf = SyncObjConf(autoTick=True, appendEntriesUseBatch=use_batch, commandsQueueSize=qsize, commandsWaitLeader=r.random() < 0.5,
                               raftMinTimeout=0.4, raftMaxTimeout=0.8, logCompactionMinEntries=10 ** 9, logCompactionMinTime=10 ** 9)
            objs.append(TS(a, [b for b in addrs if b != a], conf, 'n%d' % k))
        t0 = time.time()
        while time.time() - t0 < 8:
            if any(o._isLeader() for o in objs) and all(o._getLeader() is not None for o in objs):
                break
            time.sleep(0.02)
        else:
            res['inconclusive'] = 'no leader in real time'
            return res
        target = objs[r.randrange(n)]
        calls = {}            # uid -> record
        clock = threading.Lock()
        if yrate > 0:
            y.start()
        uid_base = (i % 1000) * 1000000

        def worker(tid):
            rr = random.Random(h32(rs, tid))
            for k in range(ncalls):
                uid = uid_base + tid * 10000 + k
                kind = rr.choice(['async', 'cb', 'sync', 'sync_to']) if not flood else 'async'
                rec = {'kind': kind, 'cbs': [], 'ret': None, 'exc': None}
                with clock:
                    calls[uid] = rec
                try:
                    if kind == 'async':
                        target.op(uid)
                    elif kind == 'cb':
                        def cb(res_, err, rec=rec):
                            rec['cbs'].append((res_, err))
                            with ctx.lock:
                                ctx.order.append(('c', uid % 1000))
                        target.op(uid, callback=cb)
                    elif kind == 'sync':
                        rec['ret'] = target.op(uid, sync=True, timeout=20.0)
                    else:
                        rec['ret'] = target.op(uid, sync=True, timeout=rr.choice([0.0005, 0.01, 0.2, 5.0]))
                except SyncObjException as e:
                    rec['exc'] = ('SyncObjException', e.errorCode)
                except BaseException as e:
                    rec['exc'] = (type(e).__name__, str(e)[:120])
                with ctx.lock:
                    ctx.order.append(('s', uid % 1000))
        ths = [threading.Thread(target=worker, args=(t,)) for t in range(nthreads)]
        for t in ths:
            t.start()
        live = list(objs)

        def depose_leader():
            """Leader change while calls are in flight / after they were answered: the leader process goes away and
            the two others elect a new one (only if the callers' node is not the leader itself)."""
            ls = [o for o in live if o._isLeader()]
            if len(ls) != 1 or ls[0] is target or len(live) < 3:
                return False
            L = ls[0]
            live.remove(L)
            try:
                L.destroy()
            except Exception:
                pass
            tl = time.time()
            while time.time() - tl < 6:
                if any(o._isLeader() for o in live):
                    res['sit']['leader_changed_under_callers'] = res['sit'].get('leader_changed_under_callers', 0) + 1
                    return True
                time.sleep(0.02)
            return False
        lc = r.choice(['none', 'mid', 'after', 'after']) if mode == 'three' and not flood else 'none'
        if lc == 'mid':
            time.sleep(r.choice([0.02, 0.1, 0.3]))
            depose_leader()
        for t in ths:
            t.join(120)
        if any(t.is_alive() for t in ths):
            res['inconclusive'] = 'caller threads did not finish (watchdog)'
        # let everything commit and apply everywhere
        def settle():
            tq = time.time()
            while time.time() - tq < 6:
                idx = [o.raftLastApplied for o in live]
                cm = [o.raftCommitIndex for o in live]
                if len(set(idx)) == 1 and idx == cm and time.time() - tq > 0.5:
                    break
                time.sleep(0.05)
        settle()
        if lc == 'after' and not any(t.is_alive() for t in ths):
            # every call has been answered: a later leader change must not make any callback fire again
            if depose_leader():
                time.sleep(0.3)
                settle()
        y.stop()
        # ---- oracle ---------------------------------------------------------------------------
        pos_of = {}
        for node, lst in ctx.applied.items():
            seen = set()
            lastpos = 0
            for (pos, uid) in lst:
                if uid in seen:
                    V('applied_twice', 'node %s applied uid %d twice' % (node, uid))
                seen.add(uid)
                if pos <= lastpos:
                    V('positions_not_increasing', 'node %s applied position %d after %d' % (node, pos, lastpos))
                lastpos = pos
                if uid in pos_of and pos_of[uid] != pos:
                    V('different_positions', 'uid %d applied at %d on one node and %d on %s' % (uid, pos_of[uid], pos, node))
                pos_of.setdefault(uid, pos)
        local = dict((uid, pos) for (pos, uid) in ctx.applied.get(target._SyncObj__selfNode.id, []))
        for uid, rec in calls.items():
            res['obs']['calls_' + rec['kind']] += 1
            if rec['exc'] is not None:
                if rec['exc'][0] != 'SyncObjException':
                    V('unexpected_exception', '%s call raised %s: %s' % (rec['kind'], rec['exc'][0], rec['exc'][1]), exc=rec['exc'][0], call=rec['kind'], flood=flood)
                    continue
                code = rec['exc'][1]
                res['obs']['sync_exc_%s' % code] += 1
                if code == 'Timeout':
                    res['sit']['sync_timeout'] = res['sit'].get('sync_timeout', 0) + 1
                elif code in NEVER_APPLIED and uid in pos_of:
                    V('failed_but_applied', 'sync call raised fail reason %r but uid %d was applied at %d' % (code, uid, pos_of[uid]), reason=code)
                elif code not in (1, 2, 3, 4, 5, 6, 'Timeout'):
                    V('unexpected_error_code', 'sync call raised SyncObjException(%r)' % (code,))
            raising = (uid % 13 == 6)
            if raising:
                res['obs']['calls_of_raising_method'] += 1
            if rec['kind'] in ('sync', 'sync_to') and rec['exc'] is None and raising:
                if rec['ret'] is not None:
                    V('sync_wrong_result', 'sync call for uid %d, whose method raises when executed, returned %r (another command\'s result?)' % (uid, rec['ret']),
                      raising=True)
                else:
                    res['obs']['sync_results_checked'] += 1
            elif rec['kind'] in ('sync', 'sync_to') and rec['exc'] is None:
                ret = rec['ret']
                if not (isinstance(ret, tuple) and len(ret) == 2 and ret[0] == uid):
                    V('sync_wrong_result', 'sync call for uid %d returned %r (another command\'s result?)' % (uid, ret))
                elif local.get(uid) != ret[1]:
                    V('sync_wrong_result', 'sync call for uid %d returned position %r, the local node applied it at %r' % (uid, ret[1], local.get(uid)))
                else:
                    res['obs']['sync_results_checked'] += 1
            if rec['kind'] == 'cb':
                if len(rec['cbs']) > 1:
                    V('callback_twice', 'callback of uid %d fired %d times' % (uid, len(rec['cbs'])))
                elif len(rec['cbs']) == 1:
                    r_, err = rec['cbs'][0]
                    if err == 0 and raising:
                        if r_ is not None:
                            V('callback_wrong_result', 'callback of uid %d, whose method raises when executed, got %r' % (uid, r_), raising=True)
                        else:
                            res['obs']['callback_results_checked'] += 1
                    elif err == 0:
                        if not (isinstance(r_, tuple) and r_[0] == uid and local.get(uid) == r_[1]):
                            V('callback_wrong_result', 'callback of uid %d got %r, applied locally at %r' % (uid, r_, local.get(uid)))
                        else:
                            res['obs']['callback_results_checked'] += 1
                    elif err in NEVER_APPLIED:
                        res['obs']['cb_fail_%s' % err] += 1
                        if uid in pos_of:
                            V('failed_but_applied', 'callback reported fail reason %r but uid %d was applied at %d' % (err, uid, pos_of[uid]), reason=err)
                elif res['inconclusive'] is None and uid in local:
                    V('callback_missing', 'uid %d was applied on the local node but its callback never fired' % uid)
        res['obs']['applied_total'] = sum(len(v) for v in ctx.applied.values())
        res['obs']['yields_injected'] = y.count
        res['obs']['cases_' + mode] += 1
        if flood:
            res['obs']['cases_flood'] += 1
        sig = h32(tuple(ctx.order[:4000]))
        res['nontrivial_fps'] = [sig] if len(pos_of) > 0 else []
        if i < 32:
            res['sample'] = {'mode': mode, 'threads': nthreads, 'calls_per_thread': ncalls, 'use_batch': use_batch, 'queue': qsize,
                             'yield_rate': yrate, 'yields': y.count, 'applied': len(pos_of), 'first_events': [list(e) for e in ctx.order[:12]]}
    except Exception as e:
        res['inconclusive'] = 'harness error: %s %s' % (type(e).__name__, str(e)[:100])
    finally:
        try:
            y.stop()
        except Exception:
            pass
        for o in objs:
            try:
                o.destroy()
            except Exception:
                pass
        time.sleep(0.15)
        CTX = None
    seen = set()
    for v in viol:
        k = (v['kind'], json.dumps(v['facts'], sort_keys=True, default=str))
        if k in seen:
            continue
        seen.add(k)
        v['replay'] = save_replay(seed, i, v, {'mode': mode, 'threads': nthreads, 'calls': ncalls, 'use_batch': use_batch, 'queue': qsize, 'yrate': yrate, 'flood': flood})
        res['violations'].append(v)
    res['obs'] = dict(res['obs'])
    return res


def cases(prop, tier, seed):
    return 240 if tier == 'quick' else 6000


def save_replay(seed, i, rec, info):
    d = os.path.join(VERIF_DIR, 'replays')
    os.makedirs(d, exist_ok=True)
    path = os.path.join(d, 'C19-%d-%d.json' % (seed, i))
    with open(path, 'w') as f:
        json.dump({'property': 'C19', 'engine': 'rv.threadstress', 'seed': seed, 'case': i, 'violation': rec, 'info': info,
                   'note': 'real threads and real time: a replay re-runs the same workload, the interleaving is not reproducible exactly'}, f, indent=1, default=str)
    return path


def replay(prop, path):
    with open(path) as f:
        doc = json.load(f)
    for attempt in range(5):
        res = run_case('C19', 'quick', doc['seed'], doc['case'])
        for v in res['violations']:
            print('replayed (attempt %d): C19/%s %s' % (attempt + 1, v['kind'], v['msg']))
            print('REPLAYED ' + json.dumps(v, default=str))
            if v['kind'] == doc['violation']['kind']:
                print('VIOLATION property=C19 replay=%s' % path)
                return 1
    print('not reproduced in 5 attempts (thread interleavings are not deterministic)')
    return 0
