"""C10: dynamic membership on E1.  The operator discipline of the property is encoded in
the adversary: an added node is started empty with the current member list right before
the add request is issued; a node whose removal has committed is shut down and can only
come back (after a later add) as a fresh, empty process; no kills of members."""
import pickle as _pickle

from .common import CLK, Violation, h32
from .clustersim import Sim, DTS, DT_W
from .monitors import Ext, cmd_type, MEMBERSHIP, FAIL_NAMES


def parse_membership(cmd):
    if cmd_type(cmd) != MEMBERSHIP:
        return None
    try:
        req = _pickle.loads(cmd[1:])
        return (req[0], req[1])
    except Exception:
        return None


def fold(base, changes, selfkey=None):
    s = set(base)
    for kind, nid in changes:
        if nid == selfkey:
            continue
        if kind == 'add':
            s.add(nid)
        elif kind == 'rem':
            s.discard(nid)
    return s


class MembershipMonitor(Ext):
    def __init__(self, mon):
        Ext.__init__(self, mon)
        self.base = {}           # proc -> (set of member ids incl. self, idx up to which it is folded)
        self.requests = {}       # uid-like counter -> dict
        self.committed_members = set(self.sim.members0)
        self.folded_upto = 1
        self.removed_committed = {}   # nid -> position of the committed removal
        self.ever_member = set(self.sim.members0)
        self.removed_inc = {}         # nid -> incarnation that was running when its removal committed
        self.added_committed = {}

    # -- configuration as defined by the log ------------------------------------------------
    def on_proc_start(self, p):
        # the list the process was constructed with; membership entries it read from its journal are folded on top
        # (position 0), exactly as for entries it appends later
        so = getattr(p, 'start_others', None)
        members = set(so) if so is not None else set(n for n in p.transport.nodes)
        if p.voter:
            members.add(p.key)
        self.base[p] = (members, 0)
        p.started_with_journal = bool(p.journal.mirror) and (p.journal.last_idx() or 0) > 1

    def members_at(self, p, k):
        """Member set of node p at its log position k: its base configuration (constructor list, or the
        snapshot it loaded) folded with the membership entries of its log up to k.  Node-relative on
        purpose: a node that was added later starts with the then current member list, so for positions
        before its own addition its set legitimately differs from the one an original member had there."""
        self.rebase_on_loaded_snapshot(p)
        base, upto = self.base[p]
        if upto > 0 or not getattr(p, 'started_with_journal', False):
            changes = []
            for e in p.journal.mirror:
                if upto < e[1] <= k:
                    ch = parse_membership(e[0])
                    if ch is not None:
                        changes.append(ch)
            return fold(base, changes, p.key if p.voter else None)
        # A process that was started on an existing journal (and has loaded no snapshot): the list it was constructed with
        # is not tied to a log position - it may be the founders' list or the current one, the entries of the journal are
        # applied on top of it either way (idempotently).  Its set at position k is its current set with the entries after k
        # taken back, last first.
        cur = set(self.expected_members(p))
        selfkey = p.key if p.voter else None
        for e in reversed(p.journal.mirror):
            if e[1] <= k:
                break
            ch = parse_membership(e[0])
            if ch is None or ch[1] == selfkey:
                continue
            if ch[0] == 'add':
                cur.discard(ch[1])
            elif ch[0] == 'rem':
                cur.add(ch[1])
        return cur

    def on_load(self, p, data):
        try:
            cluster = set(n.id for n in data[3] if n is not None)
            k = data[1][1]
        except Exception:
            return
        # (what a snapshot carries is checked when it is taken, see SnapshotMonitor.on_serialize)
        p.pending_base = (cluster, k)

    def rebase_on_loaded_snapshot(self, p):
        """A snapshot the node has loaded (received, or its dump file at start) is its base configuration from that position
        on - at once, also for a snapshot it takes later in the very same tick."""
        pb = getattr(p, 'pending_base', None)
        if pb is not None:
            cl, k = pb
            cl = set(cl) | ({p.key} if p.voter else set())
            self.base[p] = (cl, k)
            p.pending_base = None

    def expected_members(self, p):
        self.rebase_on_loaded_snapshot(p)
        base, upto = self.base[p]
        changes = []
        for e in p.journal.mirror:
            if e[1] > upto:
                ch = parse_membership(e[0])
                if ch is not None:
                    changes.append(ch)
        return fold(base, changes, p.key if p.voter else None)

    def after_step(self, p, action):
        if p.dead:
            return
        mon = self.mon
        # journal trims move entries below the log start: fold them into the base first
        pb = getattr(p, 'pending_base', None)
        if pb is not None:
            cl, k = pb
            if p.voter:
                cl = set(cl) | {p.key}
            else:
                cl = set(cl)
            self.base[p] = (cl, k)
            p.pending_base = None
        for m in p.journal.muts:
            if m[0] == 'trim':
                pass
        base, upto = self.base[p]
        f = p.journal.first_idx()
        # entries that left the log by compaction are part of the base from now on
        if f is not None and f - 1 > upto and getattr(p, 'last_mirror', None) is not None:
            gone = [e for e in p.last_mirror if upto < e[1] < f]
            ch = [c for c in (parse_membership(e[0]) for e in gone) if c is not None]
            self.base[p] = (fold(base, ch, p.key if p.voter else None), f - 1)
        p.last_mirror = list(p.journal.mirror)
        # (3) member set = fold of the log
        have = set(n.id for n in p.obj.otherNodes)
        if p.voter:
            have.add(p.key)
        exp = self.expected_members(p)
        mon.obs['member_set_checks'] += 1
        if have != exp:
            self.mon.flag('C10', 'member_set_differs_from_log', '%r reports members %r, its log (base %r + membership entries) defines %r'
                            % (p, sorted(have), sorted(self.base[p][0]), sorted(exp)),
                            loaded_snapshot=self.base[p][1] > 0)
        # (2) gate: at most one uncommitted membership entry in a leader's log, none before its own no-op is committed
        if p.voter and p.obj._isLeader():
            c = p.obj.raftCommitIndex
            term = p.obj.raftCurrentTerm
            # (what some node has reported committed is committed, even if this leader - restarted on its journal with the commit
            # index it had last stored - has yet to find out)
            com = self.mon.committed
            unc = [e for e in p.journal.mirror if e[1] > c and cmd_type(e[0]) == MEMBERSHIP
                   and not (e[1] in com and com[e[1]][0] == e[2])]
            if len(unc) > 1:
                self.mon.flag('C10', 'two_uncommitted_changes', '%r (leader, commit index %d) holds membership entries %r above its commit index'
                                % (p, c, [(e[1], parse_membership(e[0])) for e in unc]), n=len(unc))
            own = [e for e in unc if e[2] == term]
            if own:
                first_own = None
                for e in p.journal.mirror:
                    if e[2] == term:
                        first_own = e[1]
                        break
                if first_own is not None and first_own > c and own[0][1] != first_own:
                    self.mon.flag('C10', 'change_before_own_term_commit',
                                    '%r appended membership entry %d in term %d before committing an entry of that term (commit index %d, first own entry %d)'
                                    % (p, own[0][1], term, c, first_own))
            if unc:
                mon.sit['leader_with_uncommitted_change'] += 1
        for m in p.journal.muts:
            if m[0] == 'cut' and any(cmd_type(e[0]) == MEMBERSHIP for e in m[1]):
                mon.sit['membership_entry_truncated'] += 1
        # fold newly committed entries into the agreed member set
        while self.folded_upto < mon.maxc and (self.folded_upto + 1) in mon.committed:
            self.folded_upto += 1
            ch = parse_membership(mon.committed[self.folded_upto][1])
            if ch is not None:
                mon.sit['membership_change_committed'] += 1
                if ch[0] == 'add' and ch[1] not in self.committed_members:
                    self.committed_members.add(ch[1])
                    self.ever_member.add(ch[1])
                    self.added_committed[ch[1]] = self.folded_upto
                    self.removed_committed.pop(ch[1], None)
                elif ch[0] == 'rem' and ch[1] in self.committed_members:
                    self.committed_members.discard(ch[1])
                    self.removed_committed[ch[1]] = self.folded_upto
                    q = self.sim.procs.get(ch[1])
                    self.removed_inc[ch[1]] = q.inc if q is not None else -1
                    # operator discipline: the removed node is shut down as soon as the removal is committed
                    if q is not None and not q.dead:
                        self.sim.forced.append(('MSTOP', ch[1]))
                if len(self.committed_members) == 1:
                    mon.sit['shrunk_to_one'] += 1

    def on_callback(self, p, sub, res, err):
        pass

    def end_of_run(self):
        sim = self.sim
        if sim.phase != 'done' or sim.inconclusive:
            return
        if (self.mon.quiet or {}).get('result') not in (None, 'converged'):
            # "at rest" means converged: a run whose quiet phase ended with a member left behind (reported by the convergence
            # oracle, where that counts) has members that have not seen the whole committed log
            return
        # (4) agreement: every live member reports the set defined by the committed log
        for p in sim.live():
            if not p.voter or p.key not in self.committed_members:
                continue
            have = set(n.id for n in p.obj.otherNodes) | {p.key}
            self.mon.obs['agreement_checks'] += 1
            if have != self.committed_members:
                self.mon.flag('C10', 'members_disagree_at_rest', '%r reports members %r; the committed log defines %r'
                                % (p, sorted(have), sorted(self.committed_members)))


class MemberSim(Sim):
    def __init__(self, cfg, seed):
        cfg = dict(cfg)
        cfg['dynamic'] = True
        Sim.__init__(self, cfg, seed)
        self.mm = MembershipMonitor(self.mon)
        self.mon.ext.append(self.mm)
        self.mon.current_voters = lambda: set(self.mm.committed_members)
        self.mon.members_at = self.mm.members_at
        self.pool = ['10.0.0.%d:4321' % (i + 1) for i in range(5)]
        self.mreq = 0
        self.pending_add = {}
        self.readd_hazard = False
        self.started_once = set()

    def current_members(self):
        return sorted(self.mm.committed_members)

    def ro_join_members(self):
        """A read-only node is started with the current member list, or - as long as one of them still is a running member -
        with the list of the founding members (a configuration file nobody updated): it learns the rest from the log or
        from a snapshot."""
        cur = sorted(self.mm.committed_members)
        if self.cfg.get('ro_stale_list') and self.rng.random() < 0.5:
            if any(m in self.mm.committed_members and self.running(m) for m in self.members0):
                self.mon.sit['ro_joined_with_founders_list'] += 1
                return list(self.members0)
        return cur

    def boot_members(self, p):
        if self.cfg.get('restart_with_first_list') and p.conf.journalFile and getattr(p, 'first_list', None) is not None \
                and self.rng.random() < 0.7:
            # a journaled node is started again with the arguments of its first start (the usual way to run one)
            return sorted(set(p.first_list) | {p.key})
        return sorted(self.mm.committed_members | {p.key})

    def running(self, key):
        p = self.procs.get(key)
        return p is not None and not p.dead

    def gen_ext(self, kind):
        rng = self.rng
        if kind == 'member':
            live = [p for p in self.live() if p.voter]
            if not live:
                return None
            via = rng.choice(live)
            known = set(n.id for n in via.obj.otherNodes) | {via.key}
            c = rng.random()
            path = 'admin' if rng.random() < 0.3 else 'api'
            outside = [a for a in self.pool if a not in known and not self.running(a) and self.may_add(a)]
            if c < 0.5 and outside:
                return ('M', 'add', via.key, rng.choice(outside), path)
            cands = [a for a in known if a != via.key or path == 'admin']
            if self.cfg.get('member_ops') == 'add_only':
                cands = []        # (runs that are not about removals: no member is ever stranded behind removed peers)
            if cands and len(known) > 1:
                return ('M', 'rem', via.key, rng.choice(sorted(cands)), path)
            if outside:
                return ('M', 'add', via.key, rng.choice(outside), path)
            return None
        if kind == 'operator':
            if rng.random() < 0.5:
                self.ensure_running()
            # shut down a node whose removal has committed
            for nid in sorted(self.mm.removed_committed):
                # the process that was removed (not a fresh one started for a later add of the same address)
                if self.running(nid) and self.procs[nid].inc <= self.mm.removed_inc.get(nid, -1):
                    return ('MSTOP', nid)
            # shut down an orphan (started for an add that was refused / lost) now and then
            orphans = [k for k in self.procs if self.running(k) and k not in self.mm.committed_members
                       and not self.member_pending(k)]
            if orphans and rng.random() < 0.5:
                return ('MSTOP', rng.choice(sorted(orphans)))
            return None
        return Sim.gen_ext(self, kind)

    def may_add(self, nid):
        """An address that was a member before comes back as a fresh, empty process.  Doing that while some
        member has not yet applied the removal lets the empty newcomer vote/acknowledge in the name of the
        old member (listed finding C10-readded-empty-node).  Except in the few runs that follow the
        discipline literally ('readd_anytime'), the operator waits until every live member applied it."""
        if nid not in self.mm.ever_member and nid not in self.started_once:
            return True
        if self.cfg.get('readd_anytime'):
            self.readd_hazard = True
            return True
        # an address that has been used before does not come back in the other runs
        return False

    def member_pending(self, nid):
        """Is an add of nid in some live member's log but not committed yet?  (A request that is
        still queued or in flight does not count: if it is appended later the operator starts the
        node again, see ensure_running.)"""
        for p in self.live():
            if p.voter and p.key != nid and any(parse_membership(e[0]) == ('add', nid) for e in p.journal.mirror if e[1] > self.mon.maxc):
                return True
        return False

    def ensure_running(self):
        """Operator: every node that is a member by the committed log, or is being added by an entry
        in a live member's log, runs (as a fresh process with the current member list if it has to be started)."""
        want = set(self.mm.committed_members)
        for p in self.live():
            if p.voter:
                for e in p.journal.mirror:
                    if e[1] > self.mon.maxc and parse_membership(e[0]) is not None and parse_membership(e[0])[0] == 'add':
                        want.add(parse_membership(e[0])[1])
        for nid in sorted(want):
            if not self.running(nid):
                self.one_step(('MSTART', nid))
            else:
                # a node that was started for a request which only now enters the log, with a member list
                # that is no longer current (none of the members it knows is a member any more): the operator
                # starts it afresh with the current list, as the discipline says
                p = self.procs[nid]
                known = set(p.transport.nodes)
                cur = set(self.mm.committed_members) - {nid}
                if cur and not (known & cur) and (p.journal.last_idx() or 0) <= 1 and p.obj.raftCurrentTerm == 0:
                    self.one_step(('MSTOP', nid))
                    self.one_step(('MSTART', nid))
                    self.mon.sit['stale_new_node_restarted'] += 1

    def act_ext(self, a):
        k = a[0]
        if k == 'M':
            _, what, via, target, path = a
            p = self.procs.get(via)
            if p is None or p.dead:
                return None
            self.mreq += 1
            rec = {'id': self.mreq, 'what': what, 'via': via, 'target': target, 'path': path, 'cbs': [], 'step': self.step}
            if what == 'add':
                if self.running(target):
                    return None
                # operator discipline: the new node is started empty with the current member list
                old = self.procs.get(target)
                inc = old.inc + 1 if old is not None else 0
                others = sorted(self.mm.committed_members - {target})
                self.start_proc(target, target, others, inc=inc)
                self.started_once.add(target)
                self.pending_add[target] = rec
                self.mon.sit['node_started_for_add'] += 1

            def cb(res, err, rec=rec):
                rec['cbs'].append((self.step, err))
                if err != 0 and rec['what'] == 'add' and self.running(rec['target']) and rec['target'] not in self.mm.committed_members:
                    # the request failed: the operator takes the node he had started for it down again
                    self.forced.append(('MSTOP', rec['target']))
                self.mon.obs['member_cb_' + FAIL_NAMES.get(err, str(err))] += 1
                if len(rec['cbs']) > 1:
                    raise Violation('C02', 'callback_twice', 'membership request %r got callbacks %r' % (rec['what'], rec['cbs']))
            self.mon.obs['member_requests'] += 1
            self.mon.obs['member_req_' + what + '_' + path] += 1
            if any(parse_membership(e[0]) is not None for e in p.journal.mirror if e[1] > p.obj.raftCommitIndex):
                self.mon.sit['request_while_change_uncommitted'] += 1
            obj = p.obj
            if path == 'api':
                fn = obj.addNodeToCluster if what == 'add' else obj.removeNodeFromCluster
                self.run_node(p, lambda: fn(target, callback=cb))
            else:
                fn = obj._addNodeToCluster if what == 'add' else obj._removeNodeFromCluster
                self.run_node(p, lambda: fn([target], cb))
            self.stats['member_req'] += 1
            return p
        if k == 'MSTART':
            nid = a[1]
            if self.running(nid):
                return None
            old = self.procs.get(nid)
            inc = old.inc + 1 if old is not None else 0
            self.start_proc(nid, nid, sorted(self.mm.committed_members - {nid}), inc=inc)
            self.mon.sit['node_started_by_operator'] += 1
            return None
        if k == 'MSTOP':
            p = self.procs.get(a[1])
            if p is None or p.dead:
                return None
            if a[1] in self.mm.committed_members:
                return None      # (re-)added meanwhile: not a node to shut down
            self.run_node(p, p.obj.destroy)
            p.dead = True
            p.left = True
            for c in list(self.conns.values()):
                side = c.side_of(p)
                if side is not None and c.open[side]:
                    c.open[side] = False
                    c.q[1 - side].clear()
            self.stats['member_stopped'] += 1
            self.mon.sit['removed_node_shut_down'] += 1
            return None
        return Sim.act_ext(self, a)

    def boot(self):
        Sim.boot(self)

    def quiet_prepare(self):
        # the operator finishes his job: removed nodes and orphans are shut down
        for k in sorted(self.procs):
            if self.running(k) and k not in self.mm.committed_members and not self.member_pending(k):
                self.one_step(('MSTOP', k))

    def fair_round(self, dt=0.02):
        if self.phase == 'quiet':
            # the operator keeps doing his job while the network is quiet
            for k in sorted(self.procs):
                if self.running(k) and k not in self.mm.committed_members and not self.member_pending(k):
                    self.one_step(('MSTOP', k))
            while self.forced:
                self.one_step(self.forced.popleft())
            self.ensure_running()
        Sim.fair_round(self, dt)
