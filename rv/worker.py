"""Worker process: runs a slice of the case space of one property and prints one
RESULT line (JSON).  Usage:
    python -m rv.worker <prop> <tier> <seed> <slice> <nslices>
    python -m rv.worker <prop> replay <path>
"""
import os
import sys
import json
import time
import importlib
import collections
import traceback


def main():
    prop = sys.argv[1]
    from rv.props import PROPS
    spec = PROPS[prop]
    eng = importlib.import_module(spec['engine'])
    if sys.argv[2] == 'replay':
        sys.exit(eng.replay(prop, sys.argv[3]))
    tier = sys.argv[2]
    seed = int(sys.argv[3])
    sl = int(sys.argv[4])
    n = int(sys.argv[5])
    t0 = time.time()
    cap = spec['wall_cap'][tier]
    total = eng.cases(prop, tier, seed)
    res = {'runs': 0, 'nontrivial_fps': [], 'sit': collections.Counter(), 'obs': collections.Counter(),
           'escaped': collections.Counter(), 'other_props': collections.Counter(), 'inconclusive': collections.Counter(),
           'samples': [], 'violations': [], 'not_run': 0, 'escaped_first_case': {}}
    fps = set()
    sigs = collections.Counter()
    known = collections.Counter()
    from rv.common import match_finding
    idxs = list(range(sl, total, n))
    for k, i in enumerate(idxs):
        if time.time() - t0 > cap:
            res['not_run'] = len(idxs) - k
            break
        try:
            r = eng.run_case(prop, tier, seed, i)
        except Exception as e:
            res['inconclusive']['harness error: %s' % type(e).__name__] += 1
            sys.stderr.write('case %d: %s\n' % (i, traceback.format_exc()[-1500:]))
            continue
        res['runs'] += r.get('runs', 1)
        for fp in r.get('nontrivial_fps', []):
            fps.add(fp)
        res['sit'].update(r.get('sit', {}))
        res['obs'].update(r.get('obs', {}))
        res['escaped'].update(r.get('escaped', {}))
        for sig in r.get('escaped', {}):
            res['escaped_first_case'].setdefault(sig, i)
        res['other_props'].update(r.get('other_props', {}))
        if r.get('inconclusive'):
            res['inconclusive'][r['inconclusive']] += 1
        if r.get('sample') is not None and len(res['samples']) < 2:
            res['samples'].append(r['sample'])
        if 'exhaustive' in r:
            res['exhaustive'] = res.get('exhaustive', True) and r['exhaustive']
        for v in r.get('violations', []):
            sig = (v.get('prop'), v.get('kind'), json.dumps(v.get('facts', {}), sort_keys=True, default=str))
            if match_finding(v.get('prop'), v.get('kind'), v.get('facts')) is not None:
                # listed finding: keep a couple of instances, never a reason to stop exploring
                known[sig] += 1
                if known[sig] <= 2:
                    res['violations'].append(v)
                continue
            sigs[sig] += 1
            if sigs[sig] <= 3:
                res['violations'].append(v)
        if len(sigs) >= 12 or (sigs and max(sigs.values()) >= 40 and not r.get('keep_going')):
            # plenty of witnesses: stop this slice early (counted under not_run)
            res['not_run'] = len(idxs) - k - 1
            break
    res['nontrivial_fps'] = sorted(fps)
    for k in ('sit', 'obs', 'escaped', 'other_props', 'inconclusive'):
        res[k] = dict(res[k])
    sys.stdout.write('RESULT ' + json.dumps(res, default=str) + '\n')
    sys.stdout.flush()


if __name__ == '__main__':
    main()
