"""Worker process: runs a slice of the case space of one property and prints one
RESULT line (JSON).  Usage:
    python -m rv.worker <prop> <tier> <seed> <slice> <nslices>
    python -m rv.worker <prop> replay <path>
"""
import os
import sys
import json
import time
import importlib
import collections
import traceback


def main():
    prop = sys.argv[1]
    from rv.props import PROPS
    spec = PROPS[prop]
    eng = importlib.import_module(spec['engine'])
    if sys.argv[2] == 'replay':
        sys.exit(eng.replay(prop, sys.argv[3]))
    tier = sys.argv[2]
    seed = int(sys.argv[3])
    sl = int(sys.argv[4])
    n = int(sys.argv[5])
    t0 = time.time()
    cap = spec['wall_cap'][tier]
    total = eng.cases(prop, tier, seed)
    res = {'runs': 0, 'nontrivial_fps': [], 'sit': collections.Counter(), 'obs': collections.Counter(),
           'escaped': collections.Counter(), 'other_props': collections.Counter(), 'inconclusive': collections.Counter(),
           'samples': [], 'violations': [], 'not_run': 0}
    fps = set()
    idxs = list(range(sl, total, n))
    for k, i in enumerate(idxs):
        if time.time() - t0 > cap:
            res['not_run'] = len(idxs) - k
            break
        try:
            r = eng.run_case(prop, tier, seed, i)
        except Exception as e:
            res['inconclusive']['harness error: %s' % type(e).__name__] += 1
            sys.stderr.write('case %d: %s\n' % (i, traceback.format_exc()[-1500:]))
            continue
        res['runs'] += r.get('runs', 1)
        for fp in r.get('nontrivial_fps', []):
            fps.add(fp)
        res['sit'].update(r.get('sit', {}))
        res['obs'].update(r.get('obs', {}))
        res['escaped'].update(r.get('escaped', {}))
        res['other_props'].update(r.get('other_props', {}))
        if r.get('inconclusive'):
            res['inconclusive'][r['inconclusive']] += 1
        if r.get('sample') is not None and len(res['samples']) < 2:
            res['samples'].append(r['sample'])
        if 'exhaustive' in r:
            res['exhaustive'] = res.get('exhaustive', True) and r['exhaustive']
        for v in r.get('violations', []):
            if len(res['violations']) < 20:
                res['violations'].append(v)
        if len(res['violations']) >= 20:
            res['not_run'] = len(idxs) - k - 1
            break
    res['nontrivial_fps'] = sorted(fps)
    for k in ('sit', 'obs', 'escaped', 'other_props', 'inconclusive'):
        res[k] = dict(res[k])
    sys.stdout.write('RESULT ' + json.dumps(res, default=str) + '\n')
    sys.stdout.flush()


if __name__ == '__main__':
    main()
