"""E3: FileJournal against a list model, with exhaustive kill-point enumeration
(C08).  DESIGN.md section 6/C08.

Kill model: a killed process keeps its page cache, so the files as they are at
the instant of the kill are what the next incarnation opens.  While an
operation runs, every storage primitive of pysyncobj.journal (mmap store of a
record / of the header offset, file growth, .meta tmp open / write / flush /
close, shutil.move) is a kill point: the harness copies the journal files
*before and after* each primitive (and, for record stores, with 3 torn
prefixes of the stored bytes), reopens a FileJournal on every copy and checks
the post-crash oracle.  That enumerates all kill points of the operation.
"""
import os
import sys
import json
import time
import shutil
import struct
import random
import signal
import tempfile
import subprocess
import collections

from .common import bootstrap, h32, scratch_root, VERIF_DIR, match_finding

bootstrap()
import pysyncobj.journal as J          # noqa: E402
import pysyncobj.pickle as PK          # noqa: E402

_REAL_OPEN = open
_REAL_MOVE = shutil.move


class Hooks(object):
    """Installed into pysyncobj.journal: calls `self.point(kind, info)` around primitives."""

    def __init__(self):
        self.cb = None
        self.depth = 0

    def point(self, kind, **info):
        if self.cb is not None:
            self.cb(kind, info)


HOOKS = Hooks()
_ORIG_RF_WRITE = J.ResizableFile.write


def _rf_write(self, offset, values):
    HOOKS.point('store.before', offset=offset, values=bytes(values), path=self._ResizableFile__fileName)
    _ORIG_RF_WRITE(self, offset, values)
    HOOKS.point('store.after', offset=offset, size=len(values))


class _FileShim(object):
    def __init__(self, f):
        self._f = f

    def write(self, data):
        HOOKS.point('meta.write.before')
        r = self._f.write(data)
        HOOKS.point('meta.write.after')
        return r

    def flush(self):
        HOOKS.point('meta.flush.before')
        r = self._f.flush()
        HOOKS.point('meta.flush.after')
        return r

    def close(self):
        HOOKS.point('meta.close.before')
        r = self._f.close()
        HOOKS.point('meta.close.after')
        return r

    def read(self, *a):
        return self._f.read(*a)

    def __enter__(self):
        return self

    def __exit__(self, *a):
        self.close()
        return False

    def __getattr__(self, n):
        return getattr(self._f, n)


def _open(path, mode='r', *a, **kw):
    if isinstance(path, str) and path.endswith('.meta.tmp') and 'w' in mode:
        HOOKS.point('meta.open.before')
        f = _REAL_OPEN(path, mode, *a, **kw)
        HOOKS.point('meta.open.after')
        return _FileShim(f)
    return _REAL_OPEN(path, mode, *a, **kw)


class _ShutilShim(object):
    def __getattr__(self, n):
        return getattr(shutil, n)

    def move(self, a, b):
        HOOKS.point('meta.move.before')
        r = _REAL_MOVE(a, b)
        HOOKS.point('meta.move.after')
        return r


def install():
    J.ResizableFile.write = _rf_write
    J.open = _open
    J.shutil = _ShutilShim()


# ---------------------------------------------------------------------------------------
# independent decoder of the on-disk format (written from the format comment in journal.py)


def decode_file(path):
    with _REAL_OPEN(path, 'rb') as f:
        b = f.read()
    if len(b) < 40:
        raise ValueError('short header')
    last = struct.unpack('<I', b[36:40])[0]
    out = []
    off = 40
    while off < last:
        sz = struct.unpack('<I', b[off:off + 4])[0]
        data = b[off + 4:off + 4 + sz]
        if len(data) != sz or sz < 16:
            raise ValueError('bad record at %d' % off)
        tail = struct.unpack('<I', b[off + 4 + sz:off + 8 + sz])[0]
        if tail != sz:
            raise ValueError('record trailer mismatch at %d' % off)
        idx, term = struct.unpack('<QQ', data[:16])
        out.append((data[16:], idx, term))
        off += sz + 8
    if off != last:
        raise ValueError('records overrun last offset')
    return out


def contents(j):
    return [j[i] for i in range(len(j))]


class V(Exception):
    def __init__(self, kind, msg, **facts):
        Exception.__init__(self, msg)
        self.kind = kind
        self.msg = msg
        self.facts = facts


# ---------------------------------------------------------------------------------------


def gen_ops(r, n, maxrec):
    ops = []
    idx = 1
    for _ in range(n):
        k = r.random()
        if k < 0.5:
            c = r.random()
            if c < 0.15:
                size = 0
            elif c < 0.6:
                size = r.randint(1, 200)
            elif c < 0.85:
                size = r.randint(200, 3000)
            else:
                size = -1        # relative: several times the current file size (resolved at run time)
            ops.append(('add', size, r.randint(0, 255), idx, r.randint(0, 9)))
            idx += 1
        elif k < 0.62:
            ops.append(('from', r.random()))
        elif k < 0.74:
            ops.append(('to', r.random()))
        elif k < 0.78:
            ops.append(('clear',))
        elif k < 0.9:
            ops.append(('commit', r.randint(1, 10 ** 6), r.random() < 0.7))
        else:
            ops.append(('reopen',))
    return ops


def resolve(op, model, path, r):
    """Turn a generated op into a concrete one given the current state."""
    if op[0] == 'add':
        size = op[1]
        if isinstance(size, tuple):
            fs = os.path.getsize(path)
            with _REAL_OPEN(path, 'rb') as f:
                f.seek(J.LAST_RECORD_OFFSET_OFFSET)
                off = struct.unpack('<I', f.read(4))[0]
            size = fs + size[1] - off - 24          # record = 4 + (8 + 8 + command) + 4 bytes at the current end
            if size < 0:
                size = op[2] % 50
        elif size < 0:
            fs = os.path.getsize(path)
            size = int(fs * r.choice([1.0, 2.1, 3.5])) + r.randint(0, 64)
            size = min(size, 300000)
        cmd = bytes([op[2]]) * size
        return ('add', cmd, op[3], op[4])
    if op[0] == 'from':
        return ('from', int(op[1] * (len(model) + 1)))
    if op[0] == 'to':
        return ('to', int(op[1] * (len(model) + 1)))
    return op


def apply_model(op, model, commits, pending):
    if op[0] == 'add':
        model.append((op[1], op[2], op[3]))
    elif op[0] == 'from':
        del model[op[1]:]
    elif op[0] == 'to':
        del model[:op[1]]
    elif op[0] == 'clear':
        del model[:]
    elif op[0] == 'commit':
        commits.add(op[1])


def apply_real(op, j):
    if op[0] == 'add':
        j.add(op[1], op[2], op[3])
    elif op[0] == 'from':
        j.deleteEntriesFrom(op[1])
    elif op[0] == 'to':
        j.deleteEntriesTo(op[1])
    elif op[0] == 'clear':
        j.clear()
    elif op[0] == 'commit':
        j.setRaftCommitIndex(op[1])
        if op[2]:
            j.onOneSecondTimer()


def allowed_after_crash(op, P, entries):
    """Post-crash oracle: is `entries` an acceptable content given the interrupted op?"""
    n = len(P)
    if op[0] == 'add':
        return entries == P or entries == P + [(op[1], op[2], op[3])]
    if op[0] == 'from':
        k = min(op[1], n)
        m = len(entries)
        return k <= m <= n and entries == P[:m]
    if op[0] == 'to':
        k = min(op[1], n)
        m = len(entries)
        # a suffix that includes everything the op keeps
        return m >= n - k and m <= n and entries == P[n - m:]
    if op[0] == 'clear':
        m = len(entries)
        if m == 0:
            return True
        for s in range(0, n - m + 1):
            if P[s:s + m] == entries:
                return True
        return False
    return entries == P


def short(op):
    if op[0] == 'add':
        return ['add', len(op[1]), op[2], op[3]]
    return list(op)


class Case(object):
    def __init__(self, seed, enumerate_frac, nops):
        self.r = random.Random(seed)
        self.seed = seed
        self.enumerate_frac = enumerate_frac
        self.nops = nops
        self.stats = collections.Counter()
        self.fps = set()
        self.dir = tempfile.mkdtemp(prefix='e3-', dir=scratch_root())
        self.path = os.path.join(self.dir, 'j')
        self.snapdir = os.path.join(self.dir, 'snap')
        self.trace = []
        self.known = []
        self.stored_ci = 1          # last commit index whose store (.meta written and moved) completed
        self.stored_ci_before = 1
        self.pending_ci = None

    def snapshot(self, label, torn=None):
        d = os.path.join(self.snapdir, '%04d' % len(self.snaps))
        os.makedirs(d)
        for suffix in ('', '.meta', '.meta.tmp'):
            p = self.path + suffix
            if os.path.exists(p):
                shutil.copyfile(p, os.path.join(d, 'j' + suffix))
        if torn is not None:
            off, data = torn
            with _REAL_OPEN(os.path.join(d, 'j'), 'r+b') as f:
                f.seek(0, 2)
                size = f.tell()
                if off + len(data) > size:
                    f.write(b'\0' * (off + len(data) - size))
                f.seek(off)
                f.write(data)
        self.snaps.append((label, d))

    def on_point(self, kind, info):
        self.nprim += 1
        if kind == 'store.before':
            self.snapshot(kind)
            vals = info['values']
            if len(vals) > 4:
                # torn store: a prefix of the record reached the page cache.  The target range may
                # lie beyond the current file size (the growth happens inside the primitive).
                cuts = sorted(set([1, len(vals) // 2, len(vals) - 1]))
                for c in cuts:
                    if 0 < c < len(vals):
                        self.snapshot('store.torn%d' % c, torn=(info['offset'], vals[:c]))
        else:
            self.snapshot(kind)

    def allowed_commit_values(self, op, stored_before):
        """Commit index values that may be read back after a kill inside `op`: the last value whose store
        had completed before the op (1 if none ever was), or the value this op is storing."""
        ok = {stored_before}
        if op[0] == 'commit' and op[2]:
            ok.add(op[1])
        return ok

    def check_snapshots(self, op, P, commits_before, commits_after):
        for label, d in self.snaps:
            self.stats['kill_points'] += 1
            self.stats['kp_' + label.split('.')[0] + '.' + label.split('.')[1][:5]] += 1
            try:
                j2 = J.FileJournal(os.path.join(d, 'j'))
                ent = contents(j2)
                ci = j2.getRaftCommitIndex()
                j2._destroy()
            except Exception as e:
                raise V('reopen_raises', 'reopen after kill at %s of %r raised %s: %s' % (label, short(op), type(e).__name__, e),
                        op=op[0], point=label.split('.')[0])
            if not allowed_after_crash(op, P, ent):
                v = V('kill_unsafe', 'kill at %s of %r: reopened journal holds %d entries %r..., before the op it held %d'
                      % (label, short(op), len(ent), [(e[1], e[2]) for e in ent[:4]], len(P)),
                      op=op[0], point=label.split('.')[0], lost_kept_entries=True)
                if match_finding('C08', v.kind, v.facts) is None:
                    raise v
                # listed finding: note it once and keep exploring the rest of the case
                self.stats['known_finding_hits'] += 1
                if not self.known:
                    self.known.append(v)
                continue
            if ci not in self.allowed_commit_values(op, self.stored_ci_before):
                raise V('commit_index_invented', 'kill at %s of %r: reopened journal reports commit index %r; the last stored value was %r%s'
                        % (label, short(op), ci, self.stored_ci_before, (', being stored: %r' % op[1]) if op[0] == 'commit' else ''),
                        op=op[0], point=label.split('.')[0])
            self.fps.add(h32(op[0], label, len(P) > 0, len(ent)))
        shutil.rmtree(self.snapdir, ignore_errors=True)

    def run(self):
        r = self.r
        install()
        model = []
        commits = {1}
        j = J.FileJournal(self.path)
        ops = gen_ops(r, self.nops, 0)
        rb = random.Random(h32('e3edge', self.seed))
        if rb.random() < 0.5:
            # records that end exactly at / one byte around the end of the file as it is (where the file has to grow, or just not)
            ops = [(('add', ('edge', rb.choice([-1, 0, 1, 1, 2])), o[2], o[3], o[4]) if o[0] == 'add' and o[1] >= 0 and rb.random() < 0.3 else o)
                   for o in ops]
        try:
            for raw in ops:
                op = resolve(raw, model, self.path, r)
                if raw[0] == 'add' and isinstance(raw[1], tuple):
                    self.stats['add_ending_%+d_from_file_end' % raw[1][1]] += 1
                self.trace.append(short(op))
                self.stats['op_' + op[0]] += 1
                if op[0] == 'reopen':
                    j._destroy()
                    j = J.FileJournal(self.path)
                    self.compare(j, model, commits, 'after reopen')
                    if j.getRaftCommitIndex() != self.stored_ci:
                        raise V('commit_index_after_reopen', 'after a clean reopen the journal reports commit index %r, the last stored value is %r'
                                % (j.getRaftCommitIndex(), self.stored_ci))
                    self.pending_ci = None
                    continue
                P = list(model)
                cb = set(commits)
                enum = r.random() < self.enumerate_frac
                self.snaps = []
                self.nprim = 0
                self.stored_ci_before = self.stored_ci
                if enum:
                    HOOKS.cb = self.on_point
                try:
                    apply_real(op, j)
                except Exception as e:
                    raise V('op_raises', '%r raised %s: %s' % (short(op), type(e).__name__, e), op=op[0], exc=type(e).__name__)
                finally:
                    HOOKS.cb = None
                apply_model(op, model, commits, None)
                if op[0] == 'commit':
                    self.pending_ci = op[1]
                    if op[2]:
                        self.stored_ci = op[1]
                if op[0] == 'add':
                    fs = os.path.getsize(self.path)
                    if len(op[1]) > fs // 3:
                        self.stats['add_larger_than_third_of_file'] += 1
                        self.fps.add(h32('bigadd', len(op[1]) // 1000))
                self.compare(j, model, commits, 'after %r' % (short(op),))
                if enum:
                    self.stats['ops_enumerated'] += 1
                    self.stats['primitives'] += self.nprim
                    self.check_snapshots(op, P, cb, commits)
                self.fps.add(h32(op[0], len(P) == 0, min(len(model), 3)))
            j._destroy()
            j = J.FileJournal(self.path)
            self.compare(j, model, commits, 'after final reopen')
            j._destroy()
        finally:
            HOOKS.cb = None
            try:
                j._destroy()
            except Exception:
                pass
            shutil.rmtree(self.dir, ignore_errors=True)

    def compare(self, j, model, commits, where):
        self.stats['compares'] += 1
        got = contents(j)
        if got != model or len(j) != len(model):
            raise V('differs_from_list', '%s: journal has %d entries, list model %d' % (where, len(got), len(model)))
        if model:
            r = self.r
            for _ in range(3):
                i = r.randrange(-len(model), len(model))
                if j[i] != model[i]:
                    raise V('differs_from_list', '%s: j[%d] != model' % (where, i))
                a = r.randrange(0, len(model) + 1)
                b = r.randrange(0, len(model) + 2)
                if list(j[a:b]) != model[a:b]:
                    raise V('differs_from_list', '%s: slice [%d:%d] differs' % (where, a, b))
        j.flush()
        try:
            dec = decode_file(self.path)
        except Exception as e:
            raise V('bad_disk_format', '%s: independent decoder failed: %s' % (where, e))
        if dec != model:
            raise V('disk_differs', '%s: bytes on disk decode to %d entries, model has %d' % (where, len(dec), len(model)))
        self.stats['decoder_checks'] += 1


# ---------------------------------------------------------------------------------------
# real SIGKILL stress (thorough tier): catches tears inside a primitive


def child_main(path, seed, nops):
    r = random.Random(seed)
    model = []
    j = J.FileJournal(path)
    ops = gen_ops(r, nops, 0)
    sys.stdout.write('READY\n')
    sys.stdout.flush()
    k = 0
    for raw in ops:
        op = resolve(raw, model, path, r)
        if op[0] == 'reopen':
            j._destroy()
            j = J.FileJournal(path)
        else:
            sys.stdout.write('B %d %s\n' % (k, json.dumps([op[0]] + [x if not isinstance(x, bytes) else [x[:1].hex(), len(x)] for x in op[1:]])))
            sys.stdout.flush()
            apply_real(op, j)
            apply_model(op, model, set(), None)
        sys.stdout.write('E %d\n' % k)
        sys.stdout.flush()
        k += 1
    sys.stdout.write('DONE\n')
    sys.stdout.flush()
    time.sleep(30)


def sigkill_case(seed, nops=400):
    d = tempfile.mkdtemp(prefix='e3k-', dir=scratch_root())
    path = os.path.join(d, 'j')
    r = random.Random(seed ^ 0x5a5a)
    env = dict(os.environ)
    env['PYTHONHASHSEED'] = '0'
    stats = collections.Counter()
    try:
        p = subprocess.Popen([sys.executable, '-m', 'rv.journalfuzz', 'child', path, str(seed), str(nops)], cwd=VERIF_DIR,
                             stdout=subprocess.PIPE, env=env)
        line = p.stdout.readline()
        if not line.startswith(b'READY'):
            p.kill()
            return stats, None, 'child did not start'
        time.sleep(r.choice([0.0, 0.001, 0.003, 0.01, 0.03]) * r.random())
        p.send_signal(signal.SIGKILL)
        out = p.stdout.read().decode()
        p.wait()
        # rebuild the model up to the last completed op, and the op in flight
        model = []
        commits = {1}
        inflight = None
        for ln in out.splitlines():
            if ln.startswith('B '):
                _, k, js = ln.split(' ', 2)
                o = json.loads(js)
                if o[0] == 'add':
                    inflight = ('add', bytes.fromhex(o[1][0]) * o[1][1] if o[1][1] else b'', o[2], o[3])
                else:
                    inflight = tuple(o)
            elif ln.startswith('E '):
                if inflight is not None:
                    apply_model(inflight, model, commits, None)
                inflight = None
            elif ln.startswith('DONE'):
                stats['child_finished'] += 1
        j2 = J.FileJournal(path)
        ent = contents(j2)
        ci = j2.getRaftCommitIndex()
        j2._destroy()
        stats['sigkill_runs'] += 1
        ok_commits = set(commits)
        if inflight is not None:
            stats['killed_inside_' + inflight[0]] += 1
            after = list(model)
            apply_model(inflight, after, ok_commits, None)
            if not (allowed_after_crash(inflight, model, ent) or ent == after):
                return stats, V('kill_unsafe', 'SIGKILL inside %r: reopened journal holds %d entries, before the op %d'
                                % (short(inflight), len(ent), len(model)), op=inflight[0], point='sigkill', lost_kept_entries=True), None
        else:
            stats['killed_between_ops'] += 1
            if ent != model:
                return stats, V('kill_unsafe', 'SIGKILL between ops: journal %d entries, model %d' % (len(ent), len(model)),
                                op='none', point='sigkill'), None
        if ci not in ok_commits:
            return stats, V('commit_index_invented', 'SIGKILL: stored commit index %r never set' % ci, op='commit'), None
        return stats, None, None
    finally:
        shutil.rmtree(d, ignore_errors=True)


# ---------------------------------------------------------------------------------------
# engine interface


def cases(prop, tier, seed):
    return 480 if tier == 'quick' else 12000


def run_case(prop, tier, seed, i):
    rs = (h32('e3', seed) % 100000) * 100000 + i
    res = {'runs': 1, 'violations': [], 'sit': {}, 'obs': {}, 'escaped': {}, 'inconclusive': None}
    if tier == 'thorough' and i % 4 == 3:
        st, v, inc = sigkill_case(rs)
        res['obs'] = dict(st)
        res['nontrivial_fps'] = [h32('sigkill', k) for k in st if k.startswith('killed_inside')]
        if inc:
            res['inconclusive'] = inc
        if v is not None:
            res['violations'].append({'prop': 'C08', 'kind': v.kind, 'msg': v.msg, 'facts': v.facts,
                                      'replay': save_replay(rs, tier, i, v, [])})
        return res
    c = Case(rs, 0.35 if tier == 'quick' else 1.0, 40)
    try:
        c.run()
    except V as v:
        res['violations'].append({'prop': 'C08', 'kind': v.kind, 'msg': v.msg, 'facts': v.facts,
                                  'replay': save_replay(rs, tier, i, v, c.trace)})
    for v in c.known:
        res['violations'].append({'prop': 'C08', 'kind': v.kind, 'msg': v.msg, 'facts': v.facts, 'replay': 'findings/' })
    res['obs'] = dict(c.stats)
    res['nontrivial_fps'] = sorted(c.fps)
    res['exhaustive'] = True
    if i < 16:
        res['sample'] = {'seed': rs, 'ops': c.trace[:12], 'kill_points': c.stats['kill_points']}
    return res


def save_replay(rs, tier, i, v, trace):
    d = os.path.join(VERIF_DIR, 'replays')
    os.makedirs(d, exist_ok=True)
    path = os.path.join(d, 'C08-%d.json' % rs)
    with _REAL_OPEN(path, 'w') as f:
        json.dump({'property': 'C08', 'engine': 'rv.journalfuzz', 'seed': rs, 'tier': tier, 'case': i,
                   'violation': {'prop': 'C08', 'kind': v.kind, 'msg': v.msg, 'facts': v.facts}, 'ops': trace[-60:]}, f, indent=1, default=str)
    return path


def replay(prop, path):
    with _REAL_OPEN(path) as f:
        doc = json.load(f)
    tier = doc.get('tier', 'quick')
    i = doc.get('case', 0)
    rs = doc['seed']
    if tier == 'thorough' and i % 4 == 3:
        st, v, inc = sigkill_case(rs)
        print('sigkill replay is best effort (timing):', dict(st), v, inc)
    else:
        c = Case(rs, 0.35 if tier == 'quick' else 1.0, 40)
        try:
            c.run()
            v = c.known[0] if c.known else None
        except V as e:
            v = e
    if v is not None:
        print('replayed: C08/%s %s' % (v.kind, v.msg))
        print('VIOLATION property=C08 replay=%s' % path)
        return 1
    print('not reproduced')
    return 0


if __name__ == '__main__':
    if sys.argv[1] == 'child':
        child_main(sys.argv[2], int(sys.argv[3]), int(sys.argv[4]))
