"""C11: arguments of any size and shape arrive intact on every replica (healthy network).

One case = a small E1 cluster (2-3 nodes, real journal/serializer, healthy fair regime)
and a slice of argument sizes: dense around k * appendEntriesBatchSizeBytes (k = 1..4,
every size in [-64, +64]) for every batch size in {1, 7, 64, 1000, 4096, 65536}, or random
sizes and shapes.  Each command is submitted from a random node; the ArgsMonitor checks
that every replica executes it exactly once with equal arguments and that no exception
escapes any step; the driver checks the SUCCESS callback and convergence.
"""
import os
import json
import random
import collections

from .common import h32, VERIF_DIR, Violation

BATCHES = (1, 7, 64, 1000, 4096, 65536)
SLICE = 16


def dense_plan():
    """The +-64 window is laid around k*B three times: measured in bytes of the argument itself, of the
    command (argument + call pickling) and of the pickled log entry (command + index + term) - the
    chunking code has boundaries in each of these units."""
    plan = []
    for b in BATCHES:
        for k in (1, 2, 3, 4):
            for unit in ('arg', 'cmd', 'entry'):
                offs = list(range(-64, 65))
                for i in range(0, len(offs), SLICE):
                    plan.append(('dense', b, k, offs[i:i + SLICE], unit))
    return plan


DENSE = dense_plan()


def cases(prop, tier, seed):
    return len(DENSE) + (400 if tier == 'quick' else 8000)


def rand_shape(r, depth=0):
    c = r.random()
    if depth > 2 or c < 0.3:
        return r.choice([None, 0, 1.5, 'txt', b'by', True, 10 ** 20, 'x' * r.randrange(0, 300), b'\x00\xff' * r.randrange(0, 200)])
    if c < 0.55:
        return tuple(rand_shape(r, depth + 1) for _ in range(r.randrange(0, 4)))
    if c < 0.8:
        return [rand_shape(r, depth + 1) for _ in range(r.randrange(0, 4))]
    return dict((r.choice(['a', 'b', 'c', 1, 2]), rand_shape(r, depth + 1)) for _ in range(r.randrange(0, 4)))


def run_case(prop, tier, seed, i):
    from .clustersim import Sim
    from . import ext_monitors as X
    rs = (h32('c11', seed) % 100000) * 100000 + i
    r = random.Random(rs)
    unit = None
    if i < len(DENSE):
        mode, batch, k, offs, unit = DENSE[i]
        ovh = overhead(unit)
        sizes = [k * batch + o - ovh for o in offs if k * batch + o - ovh >= 0]
        payloads = [(s, (b'\xab' * s,), {}) for s in sizes]
    else:
        mode = 'random'
        batch = r.choice(BATCHES)
        payloads = []
        for _ in range(12):
            c = r.random()
            if c < 0.4:
                s = r.randrange(0, 8 * batch + 1) if batch <= 4096 else r.randrange(0, 3 * batch)
                payloads.append((s, (b'\x01' * s,), {}))
            elif c < 0.7:
                payloads.append((-1, tuple(rand_shape(r) for _ in range(r.randrange(0, 4))), {}))
            else:
                payloads.append((-1, tuple(rand_shape(r) for _ in range(r.randrange(0, 3))),
                                 dict((kk, rand_shape(r)) for kk in r.sample(['k1', 'k2', 'zz'], r.randrange(1, 3)))))
    cfg = {'cut_transfers': mode == 'random' and r.random() < 0.4, 'bursts': mode == 'random' and r.random() < 0.5, 'n': r.choice([2, 3]), 'batch': batch, 'use_batch': r.random() < 0.5, 'journal': r.choice(['memory', 'file']),
           'steps': 0, 'quiet': False, 'chunk': 65536, 'liveness': True, 'trace_len': 120, 'ext': ['args'], 'epipe': 0.25}
    if mode == 'random':
        # read-only nodes receive the commands too (their connections are among those that may break midway)
        cfg['n_ro'] = random.Random(h32('c11ro', seed, i)).choice([0, 0, 1, 2])
    sim = Sim(cfg, rs)
    am = X.ArgsMonitor(sim.mon)
    sim.mon.ext.append(am)
    res = {'runs': 1, 'violations': [], 'sit': {}, 'obs': collections.Counter(), 'escaped': {}, 'inconclusive': None, 'nontrivial_fps': []}
    viol = None
    try:
        sim.boot()

        def wait(pred, cap):
            for _ in range(cap):
                if pred():
                    return True
                sim.fair_round()
            return False
        if not wait(lambda: any(p.obj._isLeader() for p in sim.live()) and sim.mon.converged_basic(), 400):
            res['inconclusive'] = 'no leader'
        else:
            burst_left = 0
            waiting = []
            for pi, (size, args, kwargs) in enumerate(payloads):
                forced = None
                if mode == 'random' and cfg.get('cut_transfers') and r.random() < 0.4:
                    forced = cut_before_send(sim, r, res)
                p = forced or r.choice(sim.live())
                before = sim.uid
                sim.one_step(('S', p.key, 'kv', 'big', ('$UID',) + tuple(args), kwargs))
                if forced is not None:
                    # the leader sends the command (in pieces, if it is big) into a connection whose other end is gone
                    sim.one_step(('T', forced.key, 0.11))
                sub = sim.subs.get(100000 + sim.uid) if sim.uid > before else None
                if sub is None:
                    continue
                if mode == 'random' and cfg.get('bursts'):
                    # several commands submitted back to back (between two ticks): they travel and are applied together
                    if burst_left == 0 and r.random() < 0.5:
                        burst_left = r.randrange(1, 4)
                    if burst_left > 0 and pi != len(payloads) - 1:
                        burst_left -= 1
                        waiting.append((size, sub))
                        res['obs']['commands_in_bursts'] += 1
                        continue
                if mode == 'random' and cfg.get('cut_transfers') and r.random() < 0.5:
                    cut_a_transfer(sim, r, res)
                for (wsize, wsub) in waiting:
                    if not wait(lambda: bool(wsub['cbs']), 3000):
                        raise Violation('C11', 'not_replicated', 'command with argument size %r (batch %d), submitted in a burst, got no callback on a '
                                        'healthy network' % (wsize, batch), batch=batch, near_multiple=False, burst=True)
                    if wsub['cbs'][0][2] != 0:
                        raise Violation('C11', 'not_success', 'command with argument size %r (batch %d) reported %r on a healthy network'
                                        % (wsize, batch, wsub['cbs'][0][2]), batch=batch)
                    res['obs']['commands'] += 1
                waiting = []
                rounds = 60 + (len(_approx(args)) // max(batch, 1)) * 2 if batch >= 7 else 400
                if not wait(lambda: bool(sub['cbs']), min(rounds, 3000)):
                    raise Violation('C11', 'not_replicated', 'command with argument size %r (batch %d) got no callback on a healthy network '
                                    'after %d rounds' % (size, batch, min(rounds, 3000)), batch=batch, near_multiple=(mode == 'dense'))
                err = sub['cbs'][0][2]
                if err != 0:
                    raise Violation('C11', 'not_success', 'command with argument size %r (batch %d) reported %r on a healthy network'
                                    % (size, batch, err), batch=batch)
                res['obs']['commands'] += 1
            if not wait(lambda: sim.mon.converged_basic(), 3000):
                raise Violation('C11', 'replicas_not_converged', 'replicas did not reach the same position (batch %d)' % batch, batch=batch)
            sim.mon.check_equal_replicas('C11')
            for uid in am.digest:
                for p in sim.live():
                    n = am.applied.get((p.key, p.inc, uid), 0)
                    if n != 1:
                        raise Violation('C11', 'not_applied_once', '%r executed uid %d %d times' % (p, uid, n), batch=batch)
            sim.mon.end_of_run()
    except Violation as v:
        viol = v
    finally:
        sim.teardown()
    res['obs']['chunked_entry_msgs'] += sim.mon.obs.get('chunked_entry_msgs', 0)
    res['obs']['c11_applies'] += sim.mon.obs.get('c11_applies', 0)
    res['obs']['cases_' + mode] += 1
    res['obs']['send_fails_peer_gone'] += sim.stats.get('send_fails_peer_gone', 0)
    if cfg.get('n_ro'):
        res['obs']['cases_with_read_only_nodes'] += 1
    if cfg['journal'] == 'file':
        res['obs']['file_journal_cases'] += 1
    res['obs'] = dict(res['obs'])
    res['escaped'] = dict(sim.escaped)
    res['nontrivial_fps'] = [h32(mode, unit, batch, cfg['use_batch'], cfg['journal'], i)] if sim.mon.obs.get('c11_applies') else []
    if sim.mon.obs.get('chunked_entry_msgs'):
        res['sit']['chunked_path'] = 1
    if viol is not None:
        rec = viol.record()
        if rec['prop'] != 'C11':
            rec['facts'] = dict(rec.get('facts', {}), via=rec['prop'])
            rec['kind'] = '%s_%s' % (rec['prop'], rec['kind'])
            rec['prop'] = 'C11'
        rec['replay'] = save_replay(seed, i, rec, cfg, [(s, _short(a), sorted(k)) for s, a, k in payloads], sim)
        res['violations'].append(rec)
    if i % 40 == 0:
        res['sample'] = {'mode': mode, 'unit': unit, 'batch': batch, 'cfg': {k: cfg[k] for k in ('n', 'use_batch', 'journal')},
                         'sizes': [s for s, _, _ in payloads][:16]}
    return res


def cut_before_send(sim, r, res):
    """The far end of the leader's connection to a read-only node goes away just before the leader
    sends the next command: the leader finds out inside one of its send() calls."""
    leaders = [p for p in sim.live() if p.voter and p.obj._isLeader()]
    if not leaders:
        return None
    L = leaders[0]
    cands = [(c, c.side_of(L)) for c in sim.conns.values() if c.side_of(L) is not None and c.open[0] and c.open[1]]
    if not cands:
        return None
    # (only read-only nodes: losing one changes nothing for the voters, the network between them stays healthy)
    ro = [x for x in cands if getattr(x[0], 'ro', False)]
    if not ro:
        return None
    c, side = r.choice(ro)
    sim.one_step(('X', c.cid, 1 - side))
    res['obs']['far_end_gone_before_send' + ('_read_only' if getattr(c, 'ro', False) else '')] += 1
    return L


def cut_a_transfer(sim, r, res):
    """A connection of the leader breaks while a (possibly chunked) command is on its way: some of the messages queued on it
    arrive, the rest is lost with the connection; the fair rounds that follow reconnect the pair and the transfer starts over."""
    leaders = [p for p in sim.live() if p.voter and p.obj._isLeader()]
    if not leaders:
        return
    L = leaders[0]
    sim.one_step(('T', L.key, 0.0))
    cands = []
    for c in sim.conns.values():
        side = c.side_of(L)
        if side is not None and c.open[0] and c.open[1] and len(c.q[side]) >= 2:
            cands.append((c, side))
    if not cands:
        return
    c, side = r.choice(cands)
    for _ in range(r.randrange(1, len(c.q[side]))):
        if not sim.deliverable(c, side):
            break
        sim.one_step(('D', c.cid, side))
    sim.one_step(('X', c.cid, 1 - side))      # the receiving end goes first: what was still on its way is lost
    if r.random() < 0.7:
        # the leader's next heartbeat finds out inside send() (EPIPE), possibly in the middle of a command sent in pieces
        sim.one_step(('T', L.key, 0.11))
    res['obs']['transfers_cut_midway'] += 1


_OVH = {}


def overhead(unit):
    """Bytes the library adds to a bytes argument of KV.big(uid, payload): in the command and in the pickled entry."""
    if unit == 'arg':
        return 0
    if not _OVH:
        import pysyncobj.pickle as PK
        payload = b'\xab' * 1000
        cmd = b'\x00' + PK.dumps((4, (100123, payload)))
        _OVH['cmd'] = len(cmd) - 1000
        _OVH['entry'] = len(PK.dumps((cmd, 25, 1))) - 1000
    return _OVH[unit]


def _approx(args):
    try:
        return b''.join(a if isinstance(a, bytes) else str(a).encode() for a in args)
    except Exception:
        return b''


def _short(a):
    return [('%s[%d]' % (type(x).__name__, len(x)) if isinstance(x, (bytes, str)) else repr(x)[:40]) for x in a]


def save_replay(seed, i, rec, cfg, payloads, sim):
    d = os.path.join(VERIF_DIR, 'replays')
    os.makedirs(d, exist_ok=True)
    path = os.path.join(d, 'C11-%d-%d.json' % (seed, i))
    with open(path, 'w') as f:
        json.dump({'property': 'C11', 'engine': 'rv.argsweep', 'seed': seed, 'case': i, 'cfg': cfg, 'violation': rec,
                   'payloads': payloads, 'trace_tail': [repr(t)[:300] for t in list(sim.trace)[-60:]]}, f, indent=1, default=str)
    return path


def replay(prop, path):
    with open(path) as f:
        doc = json.load(f)
    res = run_case('C11', 'quick', doc['seed'], doc['case'])
    for v in res['violations']:
        print('replayed: C11/%s %s' % (v['kind'], v['msg']))
        print('REPLAYED ' + json.dumps(v, default=str))
        if v['kind'] == doc['violation']['kind']:
            print('VIOLATION property=C11 replay=%s' % path)
            return 1
    print('not reproduced')
    return 0
