"""Composite engine of C01, C02 and C03: the E1 cases of the property, and after every 19 of them one run of the
real TCP stack on simulated sockets (E2) with the protocol oracles of rv.e2.Proto - the message-level transport
model of E1 is cross-checked against the byte-level one on the same properties.  Case numbers of E1 are unchanged."""
import json

from . import e1, e2

K = 20


def cases(prop, tier, seed):
    n1 = e1.cases(prop, tier, seed)
    return n1 + n1 // (K - 1)


def run_case(prop, tier, seed, i):
    b, pos = divmod(i, K)
    if pos == K - 1:
        return e2.run_proto_case(prop, tier, seed, b)
    return e1.run_case(prop, tier, seed, b * (K - 1) + pos)


def replay(prop, path):
    with open(path) as f:
        doc = json.load(f)
    if doc.get('engine') == 'rv.e2':
        return e2.replay_proto(prop, path)
    return e1.replay(prop, path)
