#!/venv/bin/python
"""Confirm a seeded change delivered by a sub-agent, in a scratch worktree of /repo's HEAD:
demo passes without the change, fails with it, and the pinned test suite still passes with it.
Keeps it as /verif/seeded/<id>/ (patch.diff, demo.py, NOTES.md, meta.json).

    /venv/bin/python tools/seed_verify.py <seed id> <source dir> <property> [--no-tests]
"""
import os, sys, json, shutil, subprocess, time

VERIF = os.path.dirname(os.path.dirname(os.path.abspath(__file__)))
KNOWN_FAIL = {'test_encryptionCorrectPassword', 'test_encryptionWrongPassword', 'test_readOnlyNodes', 'test_syncobjAdminStatus', 'test_largeCommands'}


def sh(*a, **kw):
    return subprocess.run(list(a), stdout=subprocess.PIPE, stderr=subprocess.STDOUT, **kw)


def main():
    sid, src, prop = sys.argv[1], sys.argv[2], sys.argv[3]
    notests = '--no-tests' in sys.argv
    dst = os.path.join(VERIF, 'seeded', sid)
    os.makedirs(dst, exist_ok=True)
    for f in ('patch.diff', 'demo.py', 'NOTES.md'):
        if os.path.exists(os.path.join(src, f)):
            shutil.copy(os.path.join(src, f), os.path.join(dst, f))
    wt = '/tmp/seedv-%s' % sid
    shutil.rmtree(wt, ignore_errors=True)
    sh('git', '-C', '/repo', 'worktree', 'prune')
    sh('git', '-C', '/repo', 'worktree', 'add', '--detach', wt, 'HEAD')
    meta = {'id': sid, 'property': prop, 'repo_head': sh('git', '-C', '/repo', 'rev-parse', '--short', 'HEAD').stdout.decode().strip()}
    env = dict(os.environ, PYTHONPATH=wt, PYTHONDONTWRITEBYTECODE='1')
    try:
        shutil.copy(os.path.join(dst, 'demo.py'), os.path.join(wt, 'demo.py'))
        runs = []
        for k in range(2):
            r = sh('/venv/bin/python', 'demo.py', cwd=wt, env=env, timeout=600)
            runs.append(r.returncode)
        meta['demo_unchanged_exit'] = runs
        ap = sh('git', '-C', wt, 'apply', os.path.join(dst, 'patch.diff'))
        meta['patch_applies_to_head'] = ap.returncode == 0
        if ap.returncode != 0:
            meta['apply_error'] = ap.stdout.decode()[-300:]
        else:
            runs = []
            last = ''
            for k in range(2):
                r = sh('/venv/bin/python', 'demo.py', cwd=wt, env=env, timeout=600)
                runs.append(r.returncode)
                last = r.stdout.decode()[-400:]
            meta['demo_changed_exit'] = runs
            meta['demo_changed_tail'] = last
            if not notests:
                t0 = time.time()
                r = sh('/venv/bin/python', '-m', 'pytest', '-q', '-p', 'no:cacheprovider', '--timeout=900', 'test_syncobj.py', cwd=wt, env=env, timeout=3000)
                out = r.stdout.decode()
                failed = sorted(set(l.split('::')[1].split(' ')[0] for l in out.splitlines() if l.startswith('FAILED ') and '::' in l))
                meta['tests_with_change'] = {'summary': out.strip().splitlines()[-1] if out.strip() else '', 'failed': failed,
                                             'unexpected_failures': [f for f in failed if f not in KNOWN_FAIL], 'wall_s': round(time.time() - t0)}
        meta['confirmed'] = (all(x == 0 for x in meta['demo_unchanged_exit']) and meta.get('patch_applies_to_head')
                             and all(x != 0 for x in meta.get('demo_changed_exit', [0]))
                             and (notests or not meta['tests_with_change']['unexpected_failures']))
    finally:
        sh('git', '-C', '/repo', 'worktree', 'remove', '--force', wt)
        shutil.rmtree(wt, ignore_errors=True)
    old = {}
    mp = os.path.join(dst, 'meta.json')
    if os.path.exists(mp):
        old = json.load(open(mp))
    old.update(meta)
    json.dump(old, open(mp, 'w'), indent=1)
    print(json.dumps({k: old[k] for k in old if k != 'demo_changed_tail'}))


if __name__ == '__main__':
    main()
