#!/venv/bin/python
"""Regression over the seeded changes: every seeded/<id>/patch.diff is applied to a scratch worktree of /repo's HEAD
(tools/mutant_audit.py) and the check(s) recorded in its meta.json are run against it (quick tier, at most 2 seeds).
Writes audit/seed_regression.json.      /venv/bin/python tools/seed_regression.py [-j N] [id ...]
"""
import os, sys, json, subprocess, concurrent.futures

VERIF = os.path.dirname(os.path.dirname(os.path.abspath(__file__)))


def one(sid):
    d = os.path.join(VERIF, 'seeded', sid)
    try:
        meta = json.load(open(os.path.join(d, 'meta.json')))
    except Exception:
        return sid, {'error': 'no meta.json'}
    checks = meta.get('caught_by_checks') or [meta.get('property')]
    checks = [c for c in checks if isinstance(c, str) and c.startswith('C')][:2]
    if not checks:
        return sid, {'skipped': 'no check recorded (%r)' % (meta.get('strengthening'),)}
    r = subprocess.run(['/venv/bin/python', os.path.join(VERIF, 'tools', 'mutant_audit.py'), os.path.join(d, 'patch.diff'), ','.join(checks), '--seeds', '2'],
                       stdout=subprocess.PIPE, stderr=subprocess.STDOUT, cwd=VERIF)
    try:
        out = json.loads(r.stdout.decode().strip().splitlines()[-1])
    except Exception:
        return sid, {'error': r.stdout.decode()[-300:]}
    return sid, {'applies': out.get('applies'), 'caught_by': [(c['check'], c['seeds_needed'], c['witness'][:160]) for c in out.get('caught_by', [])],
                 'tried': [(t['check'], t['seed'], t['exit']) for t in out.get('tried', [])]}


def main():
    args = sys.argv[1:]
    j = 3
    if args[:1] == ['-j']:
        j = int(args[1]); args = args[2:]
    ids = args or sorted(x for x in os.listdir(os.path.join(VERIF, 'seeded')) if os.path.isdir(os.path.join(VERIF, 'seeded', x)))
    res = {}
    path = os.path.join(VERIF, 'audit', 'seed_regression.json')
    if args and os.path.exists(path):
        res = json.load(open(path)).get('results', {})      # (ids given: re-run those, keep the rest)
    with concurrent.futures.ThreadPoolExecutor(j) as ex:
        for sid, r in ex.map(one, ids):
            res[sid] = r
            print(sid, 'caught' if r.get('caught_by') else r, flush=True)
            json.dump({'repo_head': subprocess.run(['git', '-C', '/repo', 'rev-parse', '--short', 'HEAD'], stdout=subprocess.PIPE).stdout.decode().strip(),
                       'results': res}, open(path, 'w'), indent=1)
    missed = [k for k, v in res.items() if not v.get('caught_by') and not v.get('skipped')]
    print('missed:', missed)


if __name__ == '__main__':
    main()
