#!/venv/bin/python
"""Sensitivity audit: every repaired defect doubles as a mutant.  For each "fix:" commit of
/repo the fix is reverted on a scratch worktree of HEAD (outside /repo and /verif, removed
afterwards) and the mapped checks are run against it (VERIF_REPO); the audit records which
check reports a violation, after how many seeds, and the first witness line.

    /venv/bin/python tools/fix_audit.py [sha ...]        -> audit/fix_reverts.json
"""
import os
import sys
import json
import shutil
import subprocess

VERIF = os.path.dirname(os.path.dirname(os.path.abspath(__file__)))
BASE = '9a9972a'

MAP = [
    ('follower truncates its log only', ['C04', 'C01']),
    ('follower advances its commit index only', ['C04']),
    ('a success reply no longer rewinds', ['C04', 'C05', 'C01']),
    ('follower drops a conflicting log tail', ['C05']),
    ('a stale reject no longer makes', ['C04', 'C05']),
    ('follower ignores a snapshot that is not ahead', ['C04']),
    ('the last chunk of a big log entry', ['C11']),
    ('journal file grows until', ['C08', 'C11']),
    ('follower acknowledges a received snapshot only', ['C04', 'C09']),
    ('leader ignores append_entries replies', ['C05', 'C04']),
    ('ReplList.pop() without a position', ['C15']),
    ('a replicated method that raises', ['C12']),
    ('after loading a snapshot, calls resolve', ['C17', 'C15']),
    ('a journaled node keeps its term', ['C07']),
    ('request ids of forwarded commands', ['C06', 'C12']),
    ('loading a snapshot keeps the log entries', ['C06']),
    ('a snapshot transfer starts over', ['C09']),
    ('an incoming connection that is replaced', ['C09', 'C04']),
    ('a second membership change is refused', ['C10']),
    ('a committed membership entry is no longer executed', ['C10']),
    ('a snapshot stores the member set', ['C10']),
    ('a frame with a negative length', ['C13']),
    ('data that did not fit into the socket buffer', ['C13']),
    ('a lock client no longer reports', ['C16']),
    ('a lock acquisition that ends with an error', ['C16']),
    ('a node that lacks the requested code version stops', ['C17']),
    ('a stale setCodeVersion request', ['C17']),
    ('a node whose code lacks the enabled version', ['C17']),
    ('a full notification pipe', ['C19']),
    ('a re-elected leader restarts snapshot transfers', ['C09']),
    ('a snapshot child still running', ['C06', 'C09']),
    ('a removed member no longer counts as connected', ['C20', 'C07']),
    ('a lock whose release request was lost', ['C16']),
    ('accepted connections get the configured TCP keepalive', ['C14']),
    ('a read-only node with logCompactionSplit', ['C18']),
    ('a read-only node that drops out while a large entry', ['C11']),
    ('a delayed prolongation or acquisition', ['C16']),
]


def sh(*a, **kw):
    return subprocess.run(list(a), stdout=subprocess.PIPE, stderr=subprocess.STDOUT, **kw)


def main():
    only = set(sys.argv[1:])
    log = sh('git', '-C', '/repo', 'log', '--reverse', '--format=%h %s', BASE + '..HEAD').stdout.decode().splitlines()
    outp = os.path.join(VERIF, 'audit', 'fix_reverts.json')
    results = json.load(open(outp)) if os.path.exists(outp) else {}
    for line in log:
        sha, subj = line.split(' ', 1)
        if only and sha not in only:
            continue
        props = None
        for key, ps in MAP:
            if key in subj:
                props = ps
        if props is None:
            print('no mapping for', subj)
            continue
        wt = '/tmp/fixaudit-%s' % sha
        shutil.rmtree(wt, ignore_errors=True)
        sh('git', '-C', '/repo', 'worktree', 'prune')
        r = sh('git', '-C', '/repo', 'worktree', 'add', '--detach', wt, 'HEAD')
        rv = sh('git', '-C', wt, 'revert', '--no-commit', sha)
        entry = {'commit': sha, 'subject': subj, 'revert_applies': rv.returncode == 0, 'caught_by': None, 'tried': []}
        if rv.returncode != 0:
            entry['revert_error'] = rv.stdout.decode()[-300:]
        else:
            for prop in props:
                found = False
                for seed in (0, 1, 2):
                    env = dict(os.environ, VERIF_REPO=wt, VERIF_SEED=str(seed))
                    evp = os.path.join(VERIF, 'evidence', prop + '.json')
                    keep = open(evp).read() if os.path.exists(evp) else None
                    c = sh('/venv/bin/python', '-m', 'rv.check', prop, '--tier', 'quick', cwd=VERIF, env=env)
                    if keep is not None:
                        open(evp, 'w').write(keep)       # the audit must not leave evidence of a mutated tree behind
                    out = c.stdout.decode()
                    wit = [l.strip() for l in out.splitlines() if l.strip().startswith('witness:')]
                    entry['tried'].append({'check': prop, 'seed': seed, 'exit': c.returncode, 'witness': wit[:2]})
                    if c.returncode == 1 and 'VIOLATION property=' in out:
                        entry['caught_by'] = prop
                        entry['seeds_needed'] = seed + 1
                        entry['witness'] = wit[0] if wit else ''
                        found = True
                        break
                if found:
                    break
        sh('git', '-C', '/repo', 'worktree', 'remove', '--force', wt)
        shutil.rmtree(wt, ignore_errors=True)
        results[sha] = entry
        print(sha, 'caught by', entry['caught_by'], '|', entry.get('witness', entry.get('revert_error', ''))[:160])
        json.dump(results, open(outp, 'w'), indent=1)


if __name__ == '__main__':
    main()
