#!/bin/sh
# quick (or $TIER) sweep of every registered check over several seeds on the current tree; evidence files are
# restored afterwards when KEEP_EVIDENCE is not set.  usage: [PROPS="C01 C05"] tools/sweep.sh "0 1 2" [quick|thorough]
cd "$(dirname "$0")/.."
SEEDS="${1:-0 1 2}"; TIER="${2:-quick}"
for p in ${PROPS:-C01 C02 C03 C04 C05 C06 C07 C08 C09 C10 C11 C12 C13 C14 C15 C16 C17 C18 C19 C20}; do
  for s in $SEEDS; do
    out=$(VERIF_SEED=$s /venv/bin/python -m rv.check $p --tier $TIER 2>&1); rc=$?
    echo "$p seed=$s rc=$rc $(echo "$out" | head -1)"
    echo "$out" | grep -E "witness:|VIOLATION|INCONCLUSIVE|worker error" | head -4
  done
done
