#!/venv/bin/python
"""Apply a patch to a scratch worktree of /repo's HEAD (outside /repo and /verif, removed afterwards)
and run checks against it via VERIF_REPO.  The evidence files of /verif are restored afterwards.

    /venv/bin/python tools/mutant_audit.py <patch> <check>[,<check>...] [--seeds N] [--tier quick|thorough]
prints one JSON line: {"patch":..., "caught_by":..., "seeds_needed":..., "witness":..., "tried":[...]}
"""
import os, sys, json, shutil, subprocess, argparse, hashlib

VERIF = os.path.dirname(os.path.dirname(os.path.abspath(__file__)))


def sh(*a, **kw):
    return subprocess.run(list(a), stdout=subprocess.PIPE, stderr=subprocess.STDOUT, **kw)


def main():
    ap = argparse.ArgumentParser()
    ap.add_argument('patch')
    ap.add_argument('checks')
    ap.add_argument('--seeds', type=int, default=3)
    ap.add_argument('--tier', default='quick')
    ap.add_argument('--all', action='store_true', help='run every listed check even after one caught it')
    a = ap.parse_args()
    patch = os.path.abspath(a.patch)
    tag = hashlib.md5(patch.encode()).hexdigest()[:8]
    wt = '/tmp/mutaudit-%s' % tag
    shutil.rmtree(wt, ignore_errors=True)
    sh('git', '-C', '/repo', 'worktree', 'prune')
    sh('git', '-C', '/repo', 'worktree', 'add', '--detach', wt, 'HEAD')
    r = sh('git', '-C', wt, 'apply', patch)
    out = {'patch': os.path.relpath(patch, VERIF), 'applies': r.returncode == 0, 'caught_by': [], 'tried': []}
    try:
        if r.returncode != 0:
            out['error'] = r.stdout.decode()[-300:]
        else:
            for prop in a.checks.split(','):
                evp = os.path.join(VERIF, 'evidence', prop + '.json')
                keep = open(evp).read() if os.path.exists(evp) else None
                caught = False
                for seed in range(a.seeds):
                    env = dict(os.environ, VERIF_REPO=wt, VERIF_SEED=str(seed))
                    c = sh('/venv/bin/python', '-m', 'rv.check', prop, '--tier', a.tier, cwd=VERIF, env=env)
                    txt = c.stdout.decode()
                    wit = [l.strip() for l in txt.splitlines() if l.strip().startswith('witness:')]
                    out['tried'].append({'check': prop, 'seed': seed, 'exit': c.returncode, 'witness': wit[:2]})
                    if c.returncode == 1 and 'VIOLATION property=' in txt:
                        out['caught_by'].append({'check': prop, 'seeds_needed': seed + 1, 'witness': wit[0] if wit else ''})
                        caught = True
                        break
                if keep is not None:
                    open(evp, 'w').write(keep)
                if caught and not a.all:
                    break
    finally:
        sh('git', '-C', '/repo', 'worktree', 'remove', '--force', wt)
        shutil.rmtree(wt, ignore_errors=True)
    print(json.dumps(out))


if __name__ == '__main__':
    main()
