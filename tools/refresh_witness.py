#!/venv/bin/python
"""Refresh the committed witness of an open finding: run its check over a few seeds until an
instance of the finding is met, copy that replay file to findings/ and point the entry at it.
(Witnesses are replays of (configuration, seed): they have to be refreshed when a scenario
generator changes.)      /venv/bin/python tools/refresh_witness.py <finding key> [...]"""
import os, sys, json, shutil, subprocess
VERIF = os.path.dirname(os.path.dirname(os.path.abspath(__file__)))
kf = os.path.join(VERIF, 'known_findings.json')
doc = json.load(open(kf))
for key in sys.argv[1:]:
    f = [x for x in doc['findings'] if x['key'] == key][0]
    prop = f['property']
    for seed in range(0, 12):
        env = dict(os.environ, VERIF_SEED=str(seed))
        subprocess.run(['/venv/bin/python', '-m', 'rv.check', prop, '--tier', 'quick'], cwd=VERIF, env=env, stdout=subprocess.DEVNULL)
        ev = json.load(open(os.path.join(VERIF, 'evidence', prop + '.json')))
        rp = ev['coverage'].get('known_finding_instances_this_run', {}).get(key)
        if rp and os.path.exists(rp):
            dst = os.path.join('findings', key + '.json')
            shutil.copy(rp, os.path.join(VERIF, dst))
            f['witness'] = dst
            print(key, '-> witness from seed', seed, rp)
            break
    else:
        print(key, 'not met in 12 seeds')
json.dump(doc, open(kf, 'w'), indent=1)
