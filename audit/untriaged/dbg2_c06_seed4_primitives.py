import json, sys, collections
sys.path.insert(0,'/verif')
from rv import storage, clustersim
from rv.clustersim import Sim
r=json.load(open('/tmp/c06r.json'))
sim=Sim(r['cfg'], r['seed'])
LOG=[]
orig=storage.point
def point(kind):
    p=storage.cur_proc()
    if p is not None and p.key.startswith('10.0.0.2') and 2600<=sim.step<=3280 and not storage.IN_CHILD:
        LOG.append((sim.step, p.inc, kind))
    return orig(kind)
storage.point=point
import rv.storage
sim.run()
print('obs', {k:v for k,v in sim.mon.obs.items() if 'kill_at' in k})
last=None
for s,i,k in LOG:
    if s>=3090: print(s,i,k)
print('n prims 2600..3090:', collections.Counter(k for s,i,k in LOG if s<3090).most_common(12))
