import json, sys, collections
sys.path.insert(0,'/verif')
from rv.clustersim import Sim
r=json.load(open('/tmp/c06r.json'))
sim=Sim(r['cfg'], r['seed'])
sim.trace=collections.deque(maxlen=200000)
sim.run()
tr=[str(t) for t in sim.trace]
print(len(tr), [str(v) for v in sim.violations][:5])
ki=[i for i,t in enumerate(tr) if "'KP'" in t or "KILL" in t or "'R'," in t or 'PRIM' in t]
print('kill/restart idx', ki[-12:])
for i in ki[-6:]:
    for t in tr[max(0,i-1):i+6]: print('  ', t[:330])
    print('  ...')
print("==== (56, 58)")
for t in tr:
    if '(56, 58)' in t or "'next_node_idx': 57" in t: print('  ', t[:300])
